#!/bin/bash
# Offline setup: warm the Go build cache by compiling the check binaries once.
set -e
cd "$(dirname "$0")"
export GOFLAGS=-mod=mod GOPROXY=off GOSUMDB=off GOTOOLCHAIN=local
mkdir -p build evidence replay
[ -f go.sum ] || cp /repo/go.sum go.sum
for pkg in fsm codec real; do
  if ls checks/$pkg/*_test.go >/dev/null 2>&1; then
    go1.26.8 test -c -tags verif -vet=off -o build/warm.$pkg.test ./checks/$pkg
    go1.26.8 test -c -tags verif -vet=off -race -o build/warm.$pkg.race.test ./checks/$pkg
    rm -f build/warm.$pkg.test build/warm.$pkg.race.test
  fi
done
echo setup ok
