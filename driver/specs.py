"""Per-property pass lists and evidence texts."""

def fsm(run, name="main", **kw):
    d = {"name": name, "pkg": "fsm", "run": run}
    d.update(kw)
    return d

def codec(run, name="main", **kw):
    d = {"name": name, "pkg": "codec", "run": run, "gomaxprocs": 2}
    d.update(kw)
    return d

ENGINE_V = ["corebgp runs unmodified inside a testing/synctest bubble on in-memory connections (memnet); "
            "outbound connections come from the verif-tagged dial hook",
            "Go >= 1.23 timer-channel semantics (synctest refuses asynctimerchan=1)",
            "the remote speaker and the strict wire parser (internal/wire) are the trusted base"]

SPECS = {
 "C09": {
  "level": "fault_enumeration",
  "passes": [fsm("^TestC09$")],
  "rule": "family table: every (direction in/out, state OpenSent/OpenConfirm/Established, stimulus OPEN/UPDATE/KEEPALIVE/FIN/RST) cell, "
          "each with several seeded stream segmentations and seeded virtual delays at the FSM schedule points; family notif: received "
          "NOTIFICATION (code, subcode, data length) values (quick: every subcode of codes 0-6 plus random pairs; thorough: all 65536 pairs twice) "
          "at a seeded state/direction. A case is non-trivial when the connection reached the target state; distinct = distinct "
          "(transition log + callback sequence) signatures.",
  "exhaustive_note": "the 2x3x5 (direction,state,stimulus) table is enumerated completely on every run; thorough enumerates all 65536 NOTIFICATION (code,subcode) pairs",
  "assumptions": ENGINE_V,
 },

 "C16": {
  "level": "exploration",
  "passes": [codec("^TestC16$")],
  "rule": "family alpha: every byte string of length <= 5 (quick) / <= 6 (thorough) over the 12-symbol protocol alphabet {00,01,02,03,04,0e,0f,10,40,80,90,ff} (exhaustive); "
          "family mixed: seeded grammar-generated UPDATE bodies (0-20 attributes, duplicates, MP attributes, extended length), 1-3 structural mutations of them, random strings, "
          "bodies up to 4077 bytes and bodies of 65535..131072 bytes with boundary length fields; family trunc: every truncation point and every +-1 byte tweak of grammar bodies. "
          "Each input is decoded by the real UpdateDecoder with recording callbacks and compared call-by-call with internal/ref.PartitionUpdate. "
          "distinct_nontrivial = distinct (abort reason, overrun, MP-duplicate, missing-mandatory, section emptiness, attribute count, length class) classes hit.",
  "exhaustive_note": "family alpha enumerates its string space completely",
  "assumptions": ["reference parser internal/ref/update.go (about 60 lines, written from RFC 4271 4.3 / RFC 7606 3-5) is the trusted base", "callbacks return nil (C17 covers failing callbacks)"],
 },
 "C17": {
  "level": "exploration",
  "passes": [codec("^TestC17$")],
  "rule": "family decode/alpha: the C16 input mix, each with a seeded plan of callback results (nil / attribute-discard / treat-as-withdraw / *Notification / foreign / errors.Join / %w-wrapped / other UpdateError, at any callback position); "
          "oracle = nil-ness, strongest class in the returned tree, containment (by identity) of every callback error, callbacks stopping after a session-reset-class error, Missing Well-known Attribute fallback, "
          "and UpdateNotificationFromErr vs a reference pre-order walk. family trees: every error tree with <= 6 (quick) / <= 7 (thorough) nodes over 6 leaf kinds and {%w wrap, Join of 2, Join of 3} (exhaustive); "
          "family randtrees: random trees of 8-12 nodes. distinct_nontrivial = distinct (partition class x callback plan) classes and sampled distinct tree shapes.",
  "exhaustive_note": "family trees enumerates all trees up to the stated node count; family alpha all alphabet strings up to length 4/5",
  "assumptions": ["reference classifier and reference tree walk in checks/codec/c16_c17_test.go + internal/ref/update.go are the trusted base"],
 },

 "C18": {
  "level": "exploration",
  "passes": [codec("^TestC18$")],
  "rule": "family short: for each of the 11 attribute decoders, all 256 flag octets x every value of length 0..1 (quick) / 0..2 (thorough), exhaustive; family lengths: boundary value lengths "
          "(rule length +-1, 12/24/36, 254..257, 1020, 4092, 4096) with random content under random and correct flags; family aspath: grammar-generated AS_PATH segment lists (1-6 segments, both types, 1-255 ASNs), "
          "truncated and mutated; family flags: accessors and Validate over all 256 octets x 4 expectations. Oracle: accept/reject, decoded value, RFC 7606 approach and RFC 4271 fallback subcode vs internal/ref.AttrTable. "
          "distinct_nontrivial = distinct (attribute, O/T bits, verdict, class, length class) cells hit.",
  "exhaustive_note": "families short and flags enumerate their spaces completely",
  "assumptions": ["reference table internal/ref/attrs.go is the trusted base; when flags and value are both malformed either fallback subcode is accepted; NOTIFICATION data is not compared"],
 },

 "C19": {
  "level": "exploration",
  "passes": [codec("^TestC19$")],
  "rule": "family lists: seeded prefix lists (0-300 entries, every prefix length, random bits incl. non-zero host bits, path ids) encoded and pushed through the six exported wrappers "
          "(NLRI / withdrawn, plain / add-path, IPv6 MP helpers), then every truncation point and every octet overwritten with 9 boundary values; family single: every length octet 0..255 x 0..21 trailing bytes per wrapper; "
          "family mpreach: every next-hop length octet 0..255 x body sizes around 4+nh+1 and 4077 x 6 flag octets; mpreachflags: all 256 flag octets; mpunreach: lengths 0..40, 4077; nexthops: lengths 0..64, 255. "
          "Oracle: reference encoder/decoder internal/ref/prefix.go (count, order, path id, bit length, leading address bits; failure NOTIFICATION (3,10)/(3,0)/(3,5); closure not run on failure). "
          "distinct_nontrivial = distinct (entry point, verdict, list size / next-hop length, flags, length class) cells.",
  "exhaustive_note": "families single, mpreach (next-hop length octet), mpreachflags and nexthops enumerate their stated spaces completely",
  "assumptions": ["reference decoder internal/ref/prefix.go is the trusted base; address bits beyond the prefix length are not compared (the statement speaks of address bits of the prefix)"],
 },
}
