"""Per-property pass lists and evidence texts."""

def fsm(run, name="main", **kw):
    d = {"name": name, "pkg": "fsm", "run": run}
    d.update(kw)
    return d

def real(run, name="realtcp", **kw):
    d = {"name": name, "pkg": "real", "run": run, "shards": 1, "gomaxprocs": 8}
    d.update(kw)
    return d

ENGINE_R = ["pass realtcp (Engine R): corebgp on real loopback TCP sockets in real time, real dialer/listener, no dial hook; only positive observations are violations, every timeout is inconclusive"]

def codec(run, name="main", **kw):
    d = {"name": name, "pkg": "codec", "run": run, "gomaxprocs": 2}
    d.update(kw)
    return d

ENGINE_V = ["corebgp runs unmodified inside a testing/synctest bubble on in-memory connections (memnet); "
            "outbound connections come from the verif-tagged dial hook",
            "Go >= 1.23 timer-channel semantics (synctest refuses asynctimerchan=1)",
            "the remote speaker and the strict wire parser (internal/wire) are the trusted base"]

SPECS = {
 "C09": {
  "level": "fault_enumeration",
  "passes": [fsm("^TestC09$"), real("^TestRealReactions$"), real("^TestRealReactions$", name="realtcp-legacy-timers", env={"GODEBUG": "asynctimerchan=1"}, thorough_only=True)],
  "rule": "[thorough also repeats the real reaction table with GODEBUG=asynctimerchan=1] [also pass realtcp: the (direction,state,stimulus) table once (quick) / 10x (thorough) on real sockets incl. real FIN] family table: every (direction in/out, state OpenSent/OpenConfirm/Established, stimulus OPEN/UPDATE/KEEPALIVE/FIN/RST) cell, "
          "each with several seeded stream segmentations and seeded virtual delays at the FSM schedule points; family notif: received "
          "NOTIFICATION (code, subcode, data length) values (quick: every subcode of codes 0-6 plus random pairs; thorough: all 65536 pairs twice) "
          "at a seeded state/direction. A case is non-trivial when the connection reached the target state; distinct = distinct "
          "(transition log + callback sequence) signatures.",
  "exhaustive_note": "the 2x3x5 (direction,state,stimulus) table is enumerated completely on every run; thorough enumerates all 65536 NOTIFICATION (code,subcode) pairs",
  "assumptions": ENGINE_V,
 },

 "C16": {
  "level": "exploration",
  "passes": [codec("^TestC16$")],
  "rule": "family alpha: every byte string of length <= 5 (quick) / <= 6 (thorough) over the 12-symbol protocol alphabet {00,01,02,03,04,0e,0f,10,40,80,90,ff} (exhaustive); "
          "family mixed: seeded grammar-generated UPDATE bodies (0-20 attributes, duplicates, MP attributes, extended length), 1-3 structural mutations of them, random strings, "
          "bodies up to 4077 bytes and bodies of 65535..131072 bytes with boundary length fields; family trunc: every truncation point and every +-1 byte tweak of grammar bodies. "
          "Each input is decoded by the real UpdateDecoder with recording callbacks and compared call-by-call with internal/ref.PartitionUpdate. "
          "distinct_nontrivial = distinct (abort reason, overrun, MP-duplicate, missing-mandatory, section emptiness, attribute count, length class) classes hit.",
  "exhaustive_note": "family alpha enumerates its string space completely",
  "assumptions": ["reference parser internal/ref/update.go (about 60 lines, written from RFC 4271 4.3 / RFC 7606 3-5) is the trusted base", "callbacks return nil (C17 covers failing callbacks)"],
 },
 "C17": {
  "level": "exploration",
  "passes": [codec("^TestC17$")],
  "rule": "family decode/alpha: the C16 input mix, each with a seeded plan of callback results (nil / attribute-discard / treat-as-withdraw / *Notification / foreign / errors.Join / %w-wrapped / other UpdateError, at any callback position); "
          "oracle = nil-ness, strongest class in the returned tree, containment (by identity) of every callback error, callbacks stopping after a session-reset-class error, Missing Well-known Attribute fallback, "
          "and UpdateNotificationFromErr vs a reference pre-order walk. family trees: every error tree with <= 5 (quick) / <= 6 (thorough) nodes over 6 leaf kinds and {%w wrap, plugin-defined UpdateError with its own Unwrap, Join of 2, Join of 3} (exhaustive); "
          "family randtrees: random trees of 8-12 nodes. distinct_nontrivial = distinct (partition class x callback plan) classes and sampled distinct tree shapes.",
  "exhaustive_note": "family trees enumerates all trees up to the stated node count; family alpha all alphabet strings up to length 4/5",
  "assumptions": ["reference classifier and reference tree walk in checks/codec/c16_c17_test.go + internal/ref/update.go are the trusted base"],
 },

 "C18": {
  "level": "exploration",
  "passes": [codec("^TestC18$")],
  "rule": "family short: for each of the 11 attribute decoders, all 256 flag octets x every value of length 0..1 (quick) / 0..2 (thorough), exhaustive; family lengths: boundary value lengths "
          "(rule length +-1, 12/24/36, 254..257, 1020, 4092, 4096) with random content under random and correct flags; family aspath: grammar-generated AS_PATH segment lists (1-6 segments, both types, 1-255 ASNs), "
          "truncated and mutated; family flags: accessors and Validate over all 256 octets x 4 expectations. Oracle: accept/reject, decoded value, RFC 7606 approach and RFC 4271 fallback subcode vs internal/ref.AttrTable. "
          "distinct_nontrivial = distinct (attribute, O/T bits, verdict, class, length class) cells hit.",
  "exhaustive_note": "families short and flags enumerate their spaces completely",
  "assumptions": ["reference table internal/ref/attrs.go is the trusted base; when flags and value are both malformed either fallback subcode is accepted; NOTIFICATION data is not compared"],
 },

 "C19": {
  "level": "exploration",
  "passes": [codec("^TestC19$")],
  "rule": "family lists: seeded prefix lists (0-300 entries, every prefix length, random bits incl. non-zero host bits, path ids) encoded and pushed through the six exported wrappers "
          "(NLRI / withdrawn, plain / add-path, IPv6 MP helpers), then every truncation point and every octet overwritten with 9 boundary values; family single: every length octet 0..255 x 0..21 trailing bytes per wrapper; "
          "family mpreach: every next-hop length octet 0..255 x body sizes around 4+nh+1 and 4077 x 6 flag octets; mpreachflags: all 256 flag octets; mpunreach: lengths 0..40, 4077; nexthops: lengths 0..64, 255. "
          "Oracle: reference encoder/decoder internal/ref/prefix.go (count, order, path id, bit length, leading address bits; failure NOTIFICATION (3,10)/(3,0)/(3,5); closure not run on failure). "
          "distinct_nontrivial = distinct (entry point, verdict, list size / next-hop length, flags, length class) cells.",
  "exhaustive_note": "families single, mpreach (next-hop length octet), mpreachflags and nexthops enumerate their stated spaces completely",
  "assumptions": ["reference decoder internal/ref/prefix.go is the trusted base; inside the last encoded octet the bits beyond the prefix length may be verbatim or masked; octets that were never on the wire must be zero"],
 },

 "C02": {
  "level": "exploration",
  "passes": [codec("^TestC02Unit$", name="unit"), fsm("^TestC02$", name="e2e")],
  "rule": "pass unit (real decode+validate through the verif export shim vs internal/ref.JudgeOpen): family lattice = version{0,3,4,5,255} x AS{0,1,remote,remote+-1,AS_TRANS,65535} x hold{0,1,2,3,4,65535} x 10 identifiers x 31 hand-written "
          "optional-parameter layouts (well-formed and every structural corruption) x 12 (local AS, remote AS) configurations, exhaustive; family optlen = every optional-parameter-length octet x every real length; family random = seeded bodies "
          "(half acceptable, semantic faults, mutations, truncations, random strings). pass e2e (Engine V): the same generators, each OPEN sent with a seeded segmentation to a connection in OpenSent (inbound and outbound), observing the wire reply "
          "(single NOTIFICATION belonging to a fault present / single KEEPALIVE), OnOpenMessage arguments, establishment on KEEPALIVE, and plugin-returned NOTIFICATIONs (random code/subcode, data length 0,1,2,255,4075). "
          "distinct_nontrivial = distinct (fault set, configuration class) pairs (unit) and distinct (fault set, direction, transition/callback trace) (e2e).",
  "exhaustive_note": "unit families lattice and optlen are enumerated completely on every run",
  "assumptions": ENGINE_V + ["reference OPEN model internal/ref/open.go (Appendix A.1) is the trusted base; it accepts any NOTIFICATION that applies to some fault present, so the order of corebgp's checks is not prescribed"],
 },

 "C14": {
  "level": "exploration",
  "passes": [codec("^TestC14Unit$", name="unit"), fsm("^TestC14$", name="wire")],
  "rule": "pass unit (newOpenMessage+encode through the export shim): local AS boundary set {1,2,23455..23457,65534..65537,42e8.., 2^32-1} and random, hold times {0,3,4,9,90,180,255,256,65534,65535} and random, random router ids, "
          "plugin capability lists of 0..40 entries (codes 0..255 incl. 65, value lengths 0..300, totals aimed at the 243..262 byte boundary); family limit enumerates every single-capability value length 0..300 and two-capability sums 240..262. "
          "pass wire (Engine V): family mapped-id: router ids in IPv4-mapped IPv6 form are either refused by NewServer or reach the wire as that IPv4 address; family wire: same generator, inbound and outbound connections, a third of the cases also check the OPEN of the peer's second connection after a session in which the remote proposed a smaller hold time; the first message seen by the remote is parsed by the independent strict parser and compared with internal/ref.ExpectOpen. "
          "distinct_nontrivial = distinct (representable, AS>65535, capability count class, hold 0, direction, trace) cells.",
  "exhaustive_note": "family limit (value length 0..300) is enumerated completely",
  "assumptions": ENGINE_V + ["expected-OPEN builder internal/ref/open.go (Appendix A.2); representable = every value <= 255 bytes and all capabilities (incl. the implicit 4-octet-AS one) <= 253 bytes, i.e. one parameter inside a 255-byte optional parameters field"],
 },
 "C15": {
  "level": "exploration",
  "passes": [codec("^TestC15$")],
  "rule": "family notif: every (code, subcode) pair x data lengths 0..8 (quick) / 0..64 (thorough) plus 255, 256, 4074, 4075: encode = reference bytes and decode(encode(x)) = x; family notifbytes: every byte string of length <= 2 (quick) / <= 3 (thorough): "
          "verdict = reference, encode(decode(b)) = b; families openbytes/openlattice: OPEN bodies from the C02 generators, the field lattice, every optional-parameter-length octet x real length, every short body: decoder acceptance implies strict-parser acceptance "
          "and encode(decode(b)) = b, no value returned together with an error; family openvalues: random OPEN values with 1-3 capability parameters: decode(encode(x)) = x; family addpath: AFI boundary x all SAFI x all 256 send/receive octets, "
          "tuple lists of 0..63 entries with truncations and invalid directions, MP capability layout.",
  "exhaustive_note": "families notif (code x subcode), notifbytes, addpath tuple grid are enumerated completely",
  "assumptions": ["strict reference parser internal/wire is the trusted base; an OPEN with an empty parameter list is outside the decode(encode(x)) domain (C02 makes its rejection mandatory)"],
 },

 "C08": {
  "level": "fault_enumeration",
  "passes": [fsm("^TestC08$"), real("^TestRealHeaders$")],
  "rule": "[also pass realtcp: bad marker / length / type in each state on real sockets] family hdr: faulty 19-byte headers = {every length (quick: 0..64, 4077..4115, boundary and 250 random values; thorough: all 65536) x types {1,2,3,4,0,5,6,255} minus fault-free combinations} + {16 marker positions x {00,7f,fe} x 5 length/type combinations} "
          "+ {all 252 unknown types at lengths 19 and 23}; each header is delivered in OpenSent, OpenConfirm and Established (inbound or outbound), preceded by 0-3 well-formed messages that must take effect and followed by a message that must not, "
          "with a seeded segmentation (incl. cuts inside the faulty header). Oracle: exactly one NOTIFICATION prescribed for a fault present in the header (precedence between simultaneous faults not prescribed), then close; callbacks/UPDATE deliveries = prefix only. "
          "family fidelity: plugin-returned NOTIFICATIONs (quick: every subcode of codes 0-6 + random; thorough: all 65536 (code,subcode) pairs twice) x data lengths {0,1,2,3,255,256,4075} from OnOpenMessage and from the update handler, compared byte for byte with the wire. "
          "distinct_nontrivial = distinct (fault set, direction, state, prefix length, trace) signatures.",
  "exhaustive_note": "thorough enumerates the whole 16-bit length space for 8 type values and all (code,subcode) pairs; marker positions and the 252 unknown types are enumerated on every run",
  "assumptions": ENGINE_V,
 },

 "C03": {
  "level": "exploration",
  "passes": [fsm("^TestC03$")],
  "rule": "one case = one Established session (inbound or outbound) receiving a seeded stream of 1-60 messages: UPDATE bodies of lengths {0,1,2,3,4,5,18,19,20,23,255,256,1000,4000,4075,4076,4077} and random, carrying (connection, index) ids, interleaved with KEEPALIVEs; "
          "the byte stream is partitioned into writes by one of {single write, 1-byte writes, one write per message, writes spanning several messages, every header split at offset 1..18, random cuts} with 1 ns virtual gaps (each write a separate Read); "
          "variants: stream glued to the KEEPALIVE that establishes the session, OnEstablished taking 5 virtual ms, handler taking random virtual time, handler returning a NOTIFICATION at a random delivery. "
          "Oracle: delivered sequence == sent sequence (byte-exact), plugin automaton (no delivery before OnEstablished returned / after OnClose), delivered slices unchanged and not aliased at the end, NOTIFICATION verbatim + no later delivery + OnClose. "
          "non-trivial = at least one UPDATE sent; distinct = distinct (direction, partition, variant flags, trace) signatures.",
  "assumptions": ENGINE_V,
 },

 "C04": {
  "level": "exploration",
  "passes": [fsm("^TestC04$"), real("^TestRealBackpressure$")],
  "rule": "[also pass realtcp: real kernel back-pressure: 4 KiB send/receive buffers, the remote stops reading for 2.5 s while 4 writers and the keepalive timer (hold 3 s) write, then resumes; strict parse + exactly-once join] one case = one world with 1-3 consecutive sessions (inbound or outbound, hold time 3 s so keepalives interleave every second), each session starting 1-16 writer goroutines plus a short-body writer from inside OnEstablished, "
          "one WriteUpdate from inside OnEstablished and one per received UPDATE from inside the handler; bodies 0..4077 bytes carrying (epoch, writer, seq); sessions end by remote close / RST / Cease / silence (hold-timer expiry) mid-burst while the writers of ended "
          "sessions keep calling; finally Close with writers active; seeded virtual delays at the WriteUpdate/teardown schedule points. Oracle (offline join of call log and strict wire log): nil-returning call appears exactly once with equal body on the connection "
          "of its own session, failed call at most once, per-writer order preserved, no id on a later connection, calls begun after OnClose fail, WriteUpdate inside OnClose fails, every byte is a well-formed message, no deadlock (virtual watchdog). "
          "non-trivial = at least one successful write; distinct = distinct (direction, writers, epochs, teardown kinds, trace).",
  "assumptions": ENGINE_V + ["memnet Write is atomic per call like a TCP socket with room in its send buffer; short-write behaviour of a full kernel buffer is not modelled"],
 },

 "C06": {
  "level": "exploration",
  "passes": [fsm("^TestC06$"), real("^TestReal(Timers|SlowHandler)$"),
             real("^TestRealSlowHandler$", name="realtcp-legacy-slow", env={"GODEBUG": "asynctimerchan=1"}),
             real("^TestRealTimers$", name="realtcp-legacy-timers", env={"GODEBUG": "asynctimerchan=1"}, thorough_only=True)],
  "rule": "[pass realtcp-legacy-slow, every run: an update handler busy for 3.3 s under a 3 s hold time while the remote sends a KEEPALIVE every 600 ms, with the pre-Go-1.23 timer channels (GODEBUG=asynctimerchan=1): no Hold Timer Expired, both UPDATEs delivered; judged only when a scheduling-gap monitor shows the machine was not stalled] [thorough also repeats pass realtcp with GODEBUG=asynctimerchan=1: the pre-Go-1.23 timer channel semantics a user with an old go.mod gets, which the virtual engine cannot run] [also pass realtcp: hold-timer lower bound (3 s) and refused-dial pacing (200 ms) in real time] family grid: local hold x remote hold over {0,3,4,9,10,30,90,65535}^2 x remote traffic {silent, KEEPALIVE-only at H-10ms, UPDATE-only at H-10ms, mixed random intervals < H, silent in OpenConfirm} x direction, with local WriteUpdate patterns "
          "{none, burst, periodic at H/3-10ms} rotated over the cells (640 sessions, enumerated every run); family multi: worlds of 1-3 consecutive sessions on one peer with independently drawn remote hold times/traffic (the outbound FSM object is reused, "
          "so stale timer state of an earlier session is exercised; thorough adds random hold values 3..65535). All oracles are arithmetic on virtual timestamps taken at the remote (send time of its last message, arrival of corebgp's messages): "
          "OPEN hold field = configured; expiry NOTIFICATION(4) never before last-remote-message + min(local,remote) and not later than that + 5 ms; no teardown while the remote sends every H-10ms; gaps between consecutive messages from corebgp <= H/3 + 5 ms; "
          "hold 0: establishes, no periodic KEEPALIVE, no expiry in 10 virtual minutes of silence (longer than the 4-minute OpenSent timer). distinct = distinct (direction, local hold, session list, trace).",
  "exhaustive_note": "the 8x8 hold-time grid x 5 traffic patterns x 2 directions is enumerated completely on every run",
  "assumptions": ENGINE_V + ["tolerance 5 ms of virtual time absorbs the injected <= 2 us schedule-point delays and the 1 ms settle barrier"],
 },

 "C07": {
  "level": "exploration",
  "passes": [fsm("^TestC07$"), real("^TestRealCollision$")],
  "rule": "[also pass realtcp: ordered collisions on real sockets, both dominance configurations x both orders] grid: 10 dominance configurations (local id <, >, = remote id, and identifiers more than 2^31 apart in both directions, x local AS <, > remote AS) x modes {ordered (quiescence barrier between the two OPENs), simul (both OPENs at one virtual instant), estfirst (one connection Established while the other is in OpenSent), "
          "race-est / race-ka (the first connection's KEEPALIVE at the same instant as the second's OPEN), race-close, race-bad (victim closes / sends a bad header at that instant)} x which connection gets its OPEN first x whether the inbound connection arrives before the dial completes "
          "x 48 (quick) / 3000 (thorough) seeds of virtual delays at the FSM, peer-manager and collision-select schedule points. Oracle: ordered/simul/estfirst demand the RFC 4271 6.8 survivor exactly; race modes demand at most one survivor; always: a single Cease then close on the loser, "
          "survivor saw exactly OPEN KEEPALIVE, establishes on KEEPALIVE, delivers a subsequent UPDATE, and a further inbound connection is refused silently. evidence.events lists the observed outcome per mode. distinct = distinct (configuration, mode, order, outcome, transition/callback trace).",
  "exhaustive_note": "the configuration x mode x order grid is enumerated completely on every run; schedules within a cell are sampled",
  "assumptions": ENGINE_V,
 },

 "C12": {
  "level": "fault_enumeration",
  "passes": [fsm("^TestC12$")],
  "rule": "one case = one history of 1-4 (quick) / 1-6 (thorough) events on one peer (active or passive): protocol-error sources {remote NOTIFICATION code 1,2,3,4,5,7,8,0,255; corebgp-sent header error, OPEN error, FSM error, hold-timer expiry; plugin NOTIFICATION from OnOpenMessage and from the update handler} "
          "x state {OpenSent, OpenConfirm, Established} x direction x optional second connection in the other direction, spaced {asap, 100 s, 239 s, 299 s, 299.99 s, 300.01 s, 301 s, 1000 s} after the previous protocol error, "
          "interleaved with non-damping events {received Cease, remote close, RST, DeletePeer+AddPeer, plugin-returned Cease}. The first 42 cases enumerate every (source, state, direction) as a first error. "
          "Oracle = executable back-off model internal/ref/backoff.go over the history of error instants (virtual time): all connections closed; probe at T+D-1s refused with zero bytes; no dial in the hold-down; first dial at T+D +-5 ms (active); probe at T+D+1s served; "
          "after a non-damping event a probe 1 ms later is served. distinct = distinct (passive, step list, trace).",
  "exhaustive_note": "every (error source, state, direction) combination occurs as a first error on every run; histories beyond that are sampled",
  "assumptions": ENGINE_V + ["the error instant is taken as the remote's send time of the stimulus (or the arrival of corebgp's NOTIFICATION); tolerance 5 ms virtual"],
 },

 "C11": {
  "level": "fault_enumeration",
  "passes": [fsm("^TestC11$"), real("^TestRealReconnect$")],
  "rule": "[also pass realtcp: outbound sessions over the real dialer, IPv4 and IPv6, with and without a configured local address (source binding), and refused-dial pacing; a connection that never arrives is a violation only when a control connection to the same listener succeeds at once after 20 s = 400 x idle-hold] family strings: every fault string of length <= 3 (quick) / <= 5 (thorough) over the 12-symbol alphabet {refuse, stall, collide (the remote establishes an inbound session and closes corebgp's OpenSent connection at the same instant, later drops the session), close|reset|cease @ OpenSent|OpenConfirm|Established} (exhaustive), each applied to the successive outbound attempts of an active peer "
          "(or to successive inbound connections of a passive one) with (idle-hold, connect-retry) drawn from {(5s,5s),(1s,30s),(30s,1s),(100ms,100ms)}, followed by a well-behaved remote; family long: random strings of length 4-6 (3000 quick, 300000 thorough); family inbound-end: an inbound Established session of an active peer ends "
          "by close/reset/Cease; family realdial: real refused loopback dials inside the bubble observed through WithDialerControl. Oracle on the dial log (virtual timestamps from the dial hook / DialerControl): refused attempt followed by the next after idle-hold (never earlier than idle-hold-5ms, never later than idle-hold+connect-retry), "
          "stalled attempt cancelled and replaced within connect-retry, new attempt within idle-hold+connect-retry after any other fault, Established within idle-hold+connect-retry+1s of the last fault (liveness restated as bounded progress), passive peers never dial, dialling resumes <= 5 ms after an inbound session ends and a new inbound connection is served.",
  "exhaustive_note": "all fault strings up to the stated length are enumerated on every run",
  "assumptions": ENGINE_V + ENGINE_R + ["unbounded 'keeps trying' is decided only as bounded progress for fault strings up to the stated length"],
 },

 "C13": {
  "level": "exploration",
  "passes": [fsm("^TestC13$"), real("^TestRealAdmission$")],
  "rule": "[also pass realtcp: real listeners 127.0.0.1, 0.0.0.0, [::1], [::] (dual stack) x sources 127.0.7.2, 127.0.7.3, ::1 x local address unset/matching/other x configured/unconfigured: ground truth for address string formats] one case = one world with 1-4 configured peers drawn from {10.0.1.1, 10.0.1.2, 2001:db8::1, 2001:db8::2}, each with or without a local address (two candidates per family), passive or active, and brought into one of 8 states "
          "{idle, inbound in OpenSent, inbound in OpenConfirm, Established inbound, Established outbound, outbound in OpenSent, held down after a protocol error, deleted}; then every (source, destination) pair of a 7 x 4 address lattice "
          "(configured, unconfigured and the server's own addresses, both families) is connected in turn. Oracle = reference admission predicate (Appendix A.7): served connections get an OPEN; refused ones get zero bytes, are closed, trigger no callback; "
          "Established sessions still deliver an UPDATE afterwards. The first 24 cases enumerate every state x local-address kind. distinct = distinct (peer set, trace).",
  "assumptions": ENGINE_V + ["address strings are those net.TCPAddr produces for synthetic addresses; dual-stack listener formats are observed by the real-TCP engine only"],
 },

 "C10": {
  "level": "fault_enumeration",
  "passes": [fsm("^TestC10$", name="stops"), fsm("^TestC10Race$", name="race", race=True, gomaxprocs=4), real("^TestRealShutdown$"),
             real("^TestReal(Sessions|Readd|Collision|Shutdown)$", name="realtcp-race", race=True, thorough_only=True)],
  "rule": "[thorough also runs the real-TCP session, re-add, collision and shutdown scenarios under the race detector (pass realtcp-race: kernel-timed interleavings instead of bubble scheduling)] [also pass realtcp: Server.Close 0..20 ms after Serve with a real remote listener accepting the dial: every accepted connection must see EOF/RST and the process's socket fd count must return to its baseline] pass stops: 15 connection scripts (inbound passive/active, outbound, outbound with slow dial, a dial completing at the instant connect-retry fires, ordered and simultaneous collision, refused dials, stalled dial incl. connect-retry redial, damped peer incl. end of hold-down, active WriteUpdate callers inbound/outbound, "
          "Active state after an OpenSent TCP failure, remote-closed session, hold-time-0 session). family quiesced: Close, DeletePeer and a failing listener (Serve must return that error and stop every peer as on Close) after every step of every script (settled), several seeds of schedule-point delays, with exact expectations incl. Cease on every open connection whose approved state was OpenSent/OpenConfirm/Established; "
          "family sweep: a dry run records every virtual instant at which anything happened (20 ns fixed delay between dial completion and result hand-off, seeded delays elsewhere); the script is replayed with the stop issued concurrently at each instant t, t+1 ns, t+2..41 ns and a seeded offset < 2 us. "
          "Oracles: stop returns within 1 ms of virtual time (no dependence on protocol timers), Serve returns ErrServerClosed, every connection of the peer closed on corebgp's side at return (accountant), OnClose delivered for an Established session, no callback afterwards (sealed plugin automaton), "
          "no goroutine with corebgp frames left (goroutine dump after quiescence), after DeletePeer the server still serves a re-added peer. pass race: see race_reports; quiet monitors, steps paced by virtual sleeps, outbound FSM driven through >= 3 sessions with live writers, concurrent registry calls. "
          "distinct = distinct (script, stop kind, step/instant, trace).",
  "exhaustive_note": "every (script, step, stop kind) quiesced stop point is enumerated on every run; the instant sweep covers every event instant of the dry runs",
  "assumptions": ENGINE_V + ["the race detector only reports races on executed paths with both accesses in its shadow history; a clean pass is not race freedom"],
 },

 "C01": {
  "level": "exploration",
  "passes": [fsm("^TestC01$"), real("^TestReal(Sessions|Readd)$"), real("^TestRealSessions$", name="realtcp-legacy-timers", env={"GODEBUG": "asynctimerchan=1"}, thorough_only=True)],
  "rule": "[thorough also repeats the real sessions with GODEBUG=asynctimerchan=1] [also pass realtcp: real loopback sessions in both directions with 1-byte writes, 4 concurrent writers, Close; and DeletePeer still tearing down a session (busy handler) while AddPeer re-adds the address and the remote reconnects: never two sessions at once] one case = one seeded adversarial world: 1-3 peers (passive/active, hold 0/3/9/90, idle-hold 1ms..5s, local or remote dominant), outbound dials refused/stalled/accepted (with latency), inbound connections arriving concurrently (some with 1-5 byte reads or injected read/write errors), "
          "every connection driven by a random remote script over {valid OPEN, invalid OPEN, KEEPALIVE, UPDATE(conn,idx), Cease, other NOTIFICATION, garbage, half message, close, RST, pauses from 0 to 10 virtual seconds}, 60% of them completing a handshake first; meanwhile AddPeer/DeletePeer and finally Close. "
          "Even cases: seeded virtual delays at all schedule points, registry calls by the director only; odd cases: runtime.Gosched bursts at schedule points, one concurrent API actor per peer plus ungated arrivals. "
          "Oracle: online plugin automaton per peer (alternation, no overlap, handler only between OnEstablished return and OnClose, exactly one OnClose by Close/DeletePeer return, nothing afterwards) + offline join: every OPEN on the wire carries a nonce issued by exactly one earlier GetCapabilities call of that peer, "
          "no nonce on two connections, GetCapabilities calls without an OPEN only as many as connections that ended without one, OnOpenMessage at most once per connection and after corebgp's OPEN on it, each session's UPDATEs from one connection in order, transition log never has both FSMs established. "
          "non-trivial = at least one session established; distinct = distinct transition/callback traces.",
  "assumptions": ENGINE_V + ["schedules are sampled (Go scheduler on 4 threads + seeded delays), not enumerated"],
 },

 "C05": {
  "level": "exploration",
  "passes": [fsm("^TestC05$", name="fsm"), codec("^TestC05Decoders$", name="decoders")],
  "rule": "pass fsm, family streams: for each (direction, state OpenSent/OpenConfirm/Established) a well-formed prefix then one hostile input of 10 kinds {random bytes; valid header with any of 256 types and random body up to 4077 bytes; 1-3 structural mutations of valid OPEN / UPDATE / NOTIFICATION / KEEPALIVE; "
          "floods of 50-450 messages; half message then close/RST; syntactically valid OPENs with edge values (hold 0, AS 0, 245-byte capability, no parameters, id 0, 255-byte parameter); every interesting header length}, seeded segmentation; the plugin runs UpdateDecoder on whatever is delivered. "
          "Then 6 virtual minutes pass (all timers the input may have armed run out) and the probes run: a bystander peer's Established session still delivers, a freshly added peer establishes, Close returns and nothing leaks. A panic kills the child process and is attributed to the case in flight by the driver. "
          "family api: seeded concurrent programs (1-3 actors) over {AddPeer valid/invalid, DeletePeer, GetPeer, ListPeers, Serve(nil | listener), listener failure, Close, Close twice, Serve after Close, inbound connections, live and stale WriteUpdate}. "
          "pass decoders: every exported decoder (UpdateDecoder with all typed attribute/prefix/MP/add-path decoders plugged in, each attribute decoder directly, DecodeAddPathTuples, MP helpers, UpdateNotificationFromErr, Notification.Error, and the message decoders through the export shim) "
          "on the project's fuzz corpus seeds and 2000 mutations of each, the C16 input mix, and 65535..131072-byte slices with boundary length fields, each call under recover(). distinct = distinct (direction, state, kind, trace) / input length classes.",
  "assumptions": ENGINE_V + ["only documented API use is generated (no nil plugin under Serve, no concurrent double Serve)"],
 },

 "C20": {
  "level": "exploration",
  "passes": [fsm("^TestC20$")],
  "rule": "family grid: the full configuration grid {remote: invalid, IPv4, IPv6} x {local address: unset, IPv4, IPv6} x local AS, remote AS in {0,1,65535,65536,2^32-1} x hold {0,1,2,3,90,65535} x port {-1,0,1,179,65535,65536} x passive = 16200 AddPeer calls against the reference predicate, each rejected call followed by ListPeers "
          "(no side effect), plus 8 router ids for NewServer (exhaustive, every run); family histories: concurrent histories of 2-6 clients x 4-8 operations over AddPeer/DeletePeer/GetPeer/ListPeers on 2-4 keys against a real Server that is idle / serving (refused dials, Gosched bursts at schedule points) / being closed concurrently; "
          "call and return are stamped by one atomic logical clock at the client boundary; every AddPeer carries a unique version so reads identify the write they observed; the history is checked with porcupine against a sequential map model (ListPeers reads the whole map, so histories are not partitioned by key; checker timeout 20 s = inconclusive); "
          "family behaviour: peer added while serving dials/accepts, deleted peer stops dialling and refuses inbound, peers added before Serve start at Serve, Serve after Close returns ErrServerClosed and starts nothing, duplicate AddPeer returns ErrPeerAlreadyExists and disturbs neither the stored configuration nor the running session. "
          "distinct = distinct (server mode, history length, trace) and behaviour kinds.",
  "exhaustive_note": "the configuration grid is enumerated completely on every run",
  "assumptions": ENGINE_V + ["porcupine v1.3.0 is the linearizability checker; the sequential map model in checks/fsm/c20_test.go is the trusted base"],
 },
}

# Workload dimensions added while the checks were tried against seeded changes
# (DESIGN.md 11.5, waves 5-9); appended to the rule text that goes into evidence.
ADDED = {
 "C01": "real sessions with a configured local address (IPv4, IPv6); goroutine-leak probe after every real Server.Close.",
 "C02": "OPEN bodies padded to 4094-4096 octets; reused outbound fsm whose first session negotiated another hold time.",
 "C03": "plugins that write from inside OnEstablished and the handler (Echo); reads returning the last bytes together with EOF; streams that end inside a message (finmid).",
 "C04": "teardowns issued by a writer goroutine right before its own write; Close while the (2 us) handler is at work; a writer that carves bodies back to back from one buffer; no WriteUpdate call lasts longer than 2 s; real sockets (4 KiB buffers) whose remote stops reading for less than the hold time, for longer than the hold time, and while Server.Close arrives: the byte stream stays whole messages, and ends inside a message only after a NOTIFICATION.",
 "C05": "echoing plugins in the hostile-stream worlds; pair kind with bad-length and bad-marker headers; API programs that call Serve repeatedly, with up to three listeners failing at once.",
 "C06": "busy-handler mode (handler away for longer than the hold time); sessions the remote ends with a Cease; late confirmation in OpenConfirm; slow OnClose (500 ms), slow OnEstablished (300 ms) and a slow socket (three writes in ten take 200 ms, remote 260 ms from the deadline, allowance of three stacked delays) in a third / a third / a fifth of the worlds; local writers at random times.",
 "C07": "mode race-new (second connection appears as the first becomes Established) and mode oc-new (second connection appears while the first waits in OpenConfirm: it is served, and the identifiers decide); identifier ties with 4-octet AS numbers; 20 s watch for further dialling once the survivor is Established.",
 "C08": "plugin goroutines writing bursts while the fault is answered (Storm) and every write by corebgp yielding three times; reads returning data together with EOF and streams ending at the fault with the remote hanging up; marker corruptions next to 0xFF octets in the length/type fields; a remote that does not drain its socket for 6 s (write deadlines honoured by the transport).",
 "C09": "Echo and Storm plugins; bad-length and bad-marker trailers; unexpected OPENs with unacceptable contents; reused fsm with another first hold time.",
 "C10": "stop kinds ListenerFail with three listeners (all failing / only the first) and CloseTwice (overlapping Close calls while Serve takes 300 us to close its listener); connections corebgp had used when the stop was issued judged at the very return; closes that take 100 us or yield 40 times; scripts partial-update, partial-open, handler-writes, open-write-fails, refuse-at-retry (dial refused, Close as the connect-retry timer fires); family delete-race (an inbound connection and DeletePeer of its peer at one instant, 40 x per world).",
 "C11": "fault symbol collide-oc; family retry-race (first dial completes as connect-retry fires, session later ended by a Cease).",
 "C12": "served probes dismissed by Cease / TCP close / reset at random; a new inbound connection at the instant of the protocol error; errors exactly 300 s apart where corebgp sees them at the instants the remote causes them.",
 "C13": "held-down states reached in eight ways (NOTIFICATION in OpenSent, bad header in OpenConfirm, second OPEN in Established, code 7, plugin NOTIFICATION, two-error histories again/long) and state out-openconfirm (the outbound fsm already in OpenConfirm when a probe arrives); IPv4-mapped and non-IP address forms; destinations whose text begins like the local address.",
 "C14": "plugin handing out the slice it keeps (SharedCaps, compared with a pristine copy); family concurrent (OPENs of four peers at one instant, three goroutines in WriteUpdate); duplicate capabilities; an OPEN built for unrepresentable capabilities must still carry exactly them.",
 "C15": "every optional-parameter total 4..255 in one and two parameters, both directions; Capability.Equal.",
 "C18": "AS_PATH segments without AS numbers in any position.",
 "C20": "IPv4-mapped key in the registry histories; closing histories with a listener that takes 300 us to close; serve-after-close with 41 peers, sealed monitors and varied schedule modes.",
}
for _k, _v in ADDED.items():
    SPECS[_k]["rule"] = SPECS[_k]["rule"] + " Added later (DESIGN.md 11.5): " + _v
