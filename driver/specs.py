"""Per-property pass lists and evidence texts."""

def fsm(run, name="main", **kw):
    d = {"name": name, "pkg": "fsm", "run": run}
    d.update(kw)
    return d

def codec(run, name="main", **kw):
    d = {"name": name, "pkg": "codec", "run": run, "gomaxprocs": 2}
    d.update(kw)
    return d

ENGINE_V = ["corebgp runs unmodified inside a testing/synctest bubble on in-memory connections (memnet); "
            "outbound connections come from the verif-tagged dial hook",
            "Go >= 1.23 timer-channel semantics (synctest refuses asynctimerchan=1)",
            "the remote speaker and the strict wire parser (internal/wire) are the trusted base"]

SPECS = {
 "C09": {
  "level": "fault_enumeration",
  "passes": [fsm("^TestC09$")],
  "rule": "family table: every (direction in/out, state OpenSent/OpenConfirm/Established, stimulus OPEN/UPDATE/KEEPALIVE/FIN/RST) cell, "
          "each with several seeded stream segmentations and seeded virtual delays at the FSM schedule points; family notif: received "
          "NOTIFICATION (code, subcode, data length) values (quick: every subcode of codes 0-6 plus random pairs; thorough: all 65536 pairs twice) "
          "at a seeded state/direction. A case is non-trivial when the connection reached the target state; distinct = distinct "
          "(transition log + callback sequence) signatures.",
  "exhaustive_note": "the 2x3x5 (direction,state,stimulus) table is enumerated completely on every run; thorough enumerates all 65536 NOTIFICATION (code,subcode) pairs",
  "assumptions": ENGINE_V,
 },
}
