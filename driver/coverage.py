#!/usr/bin/env python3
"""Dev-time: merge build/cover/*.out (from ./check Cnn --cover) and list the corebgp
statements no check's workload reached."""
import glob, os, sys, collections
ROOT = os.path.dirname(os.path.dirname(os.path.abspath(__file__)))
REPO = os.environ.get("VERIF_REPO", "/repo")
blocks = {}
per = collections.defaultdict(dict)
for path in glob.glob(os.path.join(ROOT, "build", "cover", "*.out")):
    prop = os.path.basename(path)[:-4]
    for line in open(path):
        if line.startswith("mode:"):
            continue
        k, _, cnt = line.rstrip().rpartition(" ")
        loc, _, nst = k.rpartition(" ")
        blocks[loc] = (int(nst), blocks.get(loc, (0, 0))[1] + int(cnt))
        per[prop][loc] = per[prop].get(loc, 0) + int(cnt)
tot = sum(n for n, _ in blocks.values())
cov = sum(n for n, c in blocks.values() if c)
print("corebgp statements: %d, reached by at least one check: %d (%.1f%%)" % (tot, cov, 100.0 * cov / max(tot, 1)))
for prop in sorted(per):
    t = sum(blocks[l][0] for l in per[prop])
    c = sum(blocks[l][0] for l, n in per[prop].items() if n)
    print("  %s reaches %d (%.1f%%)" % (prop, c, 100.0 * c / max(t, 1)))
src = {}
print("never reached:")
for loc in sorted((l for l, (n, c) in blocks.items() if c == 0), key=lambda l: (l.split(":")[0], int(l.split(":")[1].split(".")[0]))):
    f, rng = loc.split(":")
    a, b = rng.split(",")
    l0 = int(a.split(".")[0]); l1 = int(b.split(".")[0])
    fn = os.path.join(REPO, os.path.basename(f))
    if fn not in src:
        src[fn] = open(fn).read().splitlines()
    text = " | ".join(s.strip() for s in src[fn][l0 - 1:min(l1, l0 + 2)])
    print("  %s:%d-%d  %s" % (os.path.basename(f), l0, l1, text[:150]))
