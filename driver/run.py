#!/usr/bin/env python3
"""Driver for the corebgp runtime-monitoring checks.

  ./check Cnn [--tier quick|thorough] [--seed N] [--replay PATH] [--keep]

Builds the check binaries from /repo's working tree (tag verif), runs the
property's passes sharded over child processes, watches them (crash => the
in-flight case is a violation, stall => SIGQUIT + classification), aggregates
their JSONL records into evidence/Cnn.json and prints VIOLATION /
KNOWN-FINDING lines.  Exit 0: held on everything explored; 1: violation;
2: infrastructure problem (build failure, nothing non-trivial observed).
"""
import argparse
import glob
import json
import os
import re
import shutil
import signal
import subprocess
import sys
import time

HERE = os.path.dirname(os.path.abspath(__file__))
ROOT = os.path.dirname(HERE)
sys.path.insert(0, HERE)
from specs import SPECS  # noqa: E402

GO = os.environ.get("VERIF_GO", "go1.26.8")
NCPU = os.cpu_count() or 4
STALL_S = int(os.environ.get("VERIF_STALL_S", "240"))
MAX_REPORT = 25


def goenv():
    e = dict(os.environ)
    e.update({"GOFLAGS": "-mod=mod", "GOPROXY": "off", "GOSUMDB": "off",
              "GOTOOLCHAIN": "local", "CGO_ENABLED": e.get("CGO_ENABLED", "1")})
    return e


COVER = False  # --cover: also record which corebgp statements the workload reached


def modfile_args(rundir):
    repo = os.environ.get("VERIF_REPO")
    if not repo or os.path.realpath(repo) == "/repo":
        return []
    alt = os.path.join(rundir, "alt.mod")
    s = open(os.path.join(ROOT, "go.mod")).read().replace("=> /repo", "=> " + os.path.realpath(repo))
    open(alt, "w").write(s)
    shutil.copy(os.path.join(ROOT, "go.sum"), os.path.join(rundir, "alt.sum"))
    return ["-modfile=" + alt]


def build(rundir, pkg, race):
    out = os.path.join(rundir, pkg + (".race" if race else "") + ".test")
    if os.path.exists(out):
        return out
    cmd = [GO, "test", "-c", "-tags", "verif", "-vet=off"] + modfile_args(rundir)
    if race:
        cmd.append("-race")
    if COVER:
        cmd += ["-cover", "-covermode=atomic", "-coverpkg=github.com/jwhited/corebgp"]
    cmd += ["-o", out, "./checks/" + pkg]
    p = subprocess.run(cmd, cwd=ROOT, env=goenv(), stdout=subprocess.PIPE, stderr=subprocess.STDOUT, text=True)
    if p.returncode != 0:
        print("BUILD FAILED (not a property verdict):\n" + p.stdout)
        sys.exit(2)
    return out


def read_jsonl(path):
    recs = []
    if not os.path.exists(path):
        return recs
    with open(path, "rb") as f:
        for line in f:
            try:
                recs.append(json.loads(line))
            except Exception:
                pass  # torn last line of a killed process
    return recs


class Shard:
    def __init__(self, rundir, passname, spec, binpath, i, n, seed, tier, extra_env):
        self.rundir, self.passname, self.spec, self.bin = rundir, passname, spec, binpath
        self.i, self.n, self.seed, self.tier = i, n, seed, tier
        self.extra_env = extra_env
        self.out = os.path.join(rundir, "%s.%d.jsonl" % (passname, i))
        self.log = os.path.join(rundir, "%s.%d.log" % (passname, i))
        self.proc = None
        self.restarts = 0
        self.stalls = 0
        self.synthetic = []  # violation/inconclusive records created by the driver
        self.done = False
        self.last_size = -1
        self.last_change = time.time()
        self.logf = None

    def frm(self):
        hi = {}
        for r in read_jsonl(self.out):
            if r.get("t") in ("S", "E"):
                hi[r["family"]] = max(hi.get(r["family"], -1), r["idx"])
        return ",".join("%s=%d" % (k, v + 1) for k, v in hi.items())

    def start(self):
        env = goenv()
        env.update({"VERIF_OUT": self.out, "VERIF_SHARD": "%d/%d" % (self.i, self.n),
                    "VERIF_SEED": str(self.seed), "VERIF_TIER": self.tier,
                    "GOMAXPROCS": str(self.spec.get("gomaxprocs", 4)),
                    "GOTRACEBACK": "all"})
        if self.spec.get("race"):
            env["VERIF_RACE"] = "1"
            env["GORACE"] = "halt_on_error=0 log_path=%s" % os.path.join(self.rundir, "race.%s.%d" % (self.passname, self.i))
        f = self.frm()
        if f:
            env["VERIF_FROM"] = f
        env.update(self.spec.get("env", {}))
        env.update(self.extra_env)
        self.logf = open(self.log, "ab")
        args = [self.bin, "-test.run", self.spec["run"], "-test.timeout=0", "-test.count=1"]
        if COVER:
            args.append("-test.coverprofile=" + os.path.join(self.rundir, "cover.%s.%d.%d.out" % (self.passname, self.i, self.restarts)))
        self.proc = subprocess.Popen(args,
                                     cwd=self.rundir, env=env, stdout=self.logf, stderr=subprocess.STDOUT)
        self.last_change = time.time()

    def inflight(self):
        open_ = {}
        for r in read_jsonl(self.out):
            k = (r.get("family"), r.get("idx"))
            if r.get("t") == "S":
                open_[k] = r
            elif r.get("t") == "E":
                open_.pop(k, None)
        return list(open_.values())

    def loghead(self, n=6000):
        try:
            with open(self.log, "rb") as f:
                return f.read(n).decode("utf-8", "replace")
        except Exception:
            return ""

    def logtail(self, n=16000):
        try:
            with open(self.log, "rb") as f:
                f.seek(0, 2)
                sz = f.tell()
                f.seek(max(0, sz - n))
                return f.read().decode("utf-8", "replace")
        except Exception:
            return ""

    def poll(self):
        """returns True when this shard is finished for good"""
        if self.done:
            return True
        rc = self.proc.poll()
        if rc is None:
            try:
                sz = os.path.getsize(self.out)
            except OSError:
                sz = 0
            if sz != self.last_size:
                self.last_size, self.last_change = sz, time.time()
            elif time.time() - self.last_change > STALL_S:
                self.proc.send_signal(signal.SIGQUIT)
                try:
                    self.proc.wait(timeout=30)
                except subprocess.TimeoutExpired:
                    self.proc.kill()
                    self.proc.wait()
                self.logf.close()
                tail = self.logtail(200000)
                inf = self.inflight()
                # a goroutine parked in one of the harness's own virtual sleeps (schedule-point delay,
                # simulated write stall) while others wait for a mutex freezes virtual time: that is an
                # artefact of the bubble, not evidence about corebgp
                harness_sleep = "hz.(*World).hook" in tail or any(
                    ("[sleep" in blk.split("\n", 1)[0] and "memnet.(*Conn).Write" in blk) for blk in tail.split("\n\n"))
                for r in inf:
                    verdict = "inconclusive" if harness_sleep else "violated"
                    why = ("no progress for %d s of wall-clock time; goroutine dump shows a goroutine inside a harness "
                           "virtual sleep, so this is classified as a harness artefact" % STALL_S) if harness_sleep else \
                          ("process made no progress for %d s of wall-clock time (real hang: busy loop or blocked outside "
                           "virtual time); goroutine dump attached" % STALL_S)
                    self.synthetic.append({"t": "E", "family": r["family"], "idx": r["idx"], "params": r.get("params"),
                                           "res": {"verdict": verdict, "why": why, "nontrivial": True,
                                                   "witness": {"goroutines": tail[-60000:]}}})
                self.stalls += 1
                if self.stalls >= 2:
                    # two cases of this shard have hung already: do not spend the
                    # stall timeout on every remaining case
                    self.synthetic.append({"t": "I", "family": "driver", "info": {"shard_abandoned_after_stalls": self.stalls, "shard": self.i}})
                    self.done = True
                    return True
                return self._maybe_restart(bool(inf))
            return False
        self.logf.close()
        if rc == 0:
            self.done = True
            return True
        inf = self.inflight()
        tail = self.logtail()
        if rc == 3 and not inf:
            # case reported its own verdict and asked for a fresh process
            return self._maybe_restart(True)
        if inf:
            m = re.search(r"VERIF-FATAL ([^\n]*)", tail)
            owner = "" if m else crash_owner(self.logtail(400000))
            if owner == "runtime":
                for r in inf:
                    self.synthetic.append({"t": "E", "family": r["family"], "idx": r["idx"], "params": r.get("params"),
                                           "res": {"verdict": "inconclusive", "nontrivial": False,
                                                   "why": "the Go runtime itself crashed (raw signal inside runtime code, no Go-level panic) while this case ran: "
                                                          "a toolchain problem under -race/synctest, not attributable to corebgp",
                                                   "witness": {"exit": rc, "output_head": self.loghead(6000)}}})
                return self._maybe_restart(True)
            if owner == "harness":
                # the panic is in harness code: an infrastructure failure, never a verdict
                self.synthetic.append({"t": "X", "why": "HARNESS PANIC in case %s/%s (not a property verdict)" % (inf[0]["family"], inf[0]["idx"]), "tail": tail[-6000:]})
                self.done = True
                return True
            for r in inf:
                why = ("harness-detected fatal condition: " + m.group(1)) if m else \
                    "process died (exit %d) while this case was running: corebgp panicked or crashed" % rc
                self.synthetic.append({"t": "E", "family": r["family"], "idx": r["idx"], "params": r.get("params"),
                                       "res": {"verdict": "violated", "why": why, "nontrivial": True,
                                               "witness": {"exit": rc, "output_tail": tail[-12000:]}}})
            return self._maybe_restart(True)
        # died outside any case: infrastructure failure
        self.synthetic.append({"t": "X", "why": "check process exited %d outside any case" % rc, "tail": tail[-8000:]})
        self.done = True
        return True

    def _maybe_restart(self, progressed):
        self.restarts += 1
        # fail fast: once a shard has reported plenty of violations, further ones add nothing to the verdict
        nv = sum(1 for r in read_jsonl(self.out) if r.get("t") == "E" and r["res"].get("verdict") == "violated") + \
            sum(1 for r in self.synthetic if r.get("t") == "E")
        if nv >= 20:
            self.synthetic.append({"t": "I", "family": "driver", "info": {"shard_stopped_after_violations": nv, "shard": self.i}})
            self.done = True
            return True
        if not progressed or self.restarts > 200:
            self.synthetic.append({"t": "X", "why": "shard gave up after %d restarts" % self.restarts, "tail": self.logtail(4000)})
            self.done = True
            return True
        self.start()
        return False

    def records(self):
        return read_jsonl(self.out) + self.synthetic


def crash_owner(text):
    """'corebgp' when the panicking goroutine's innermost non-runtime frame is in corebgp, 'harness' when it is in verif/"""
    # a raw signal taken inside the Go runtime itself (no Go-level "panic:" line, header
    # "SIGSEGV: segmentation violation / PC=... m=... sigcode=...") is a toolchain crash:
    # corebgp has no unsafe code that could corrupt runtime state
    m0 = re.search(r"^(SIGSEGV|SIGBUS|SIGILL): [^\n]*\nPC=0x[0-9a-f]+ m=\d+ sigcode=", text, re.M)
    if m0 and "panic:" not in text[:m0.start() + 200]:
        return "runtime"
    i = text.find("\npanic:")
    if i < 0:
        i = text.find("panic:")
    if i < 0:
        i = text.find("fatal error:")
    if i < 0:
        return "unknown"
    j = text.find("goroutine ", i)
    if j < 0:
        return "unknown"
    blk = text[j:].split("\n\n")[0]
    for line in blk.splitlines():
        line = line.strip()
        if line.startswith("github.com/jwhited/corebgp."):
            return "corebgp"
        if line.startswith("verif/"):
            return "harness"
    return "unknown"


RACE_SPLIT = re.compile(r"^==================\s*$", re.M)
FRAME = re.compile(r"^\s+(\S+)\(.*\)\s*$|^\s+(\S+)\(\)\s*$")


def first_user_frame(section):
    """first frame of an access stack that is not in the Go standard library"""
    lines = section.splitlines()
    for k in range(len(lines) - 1):
        m = re.match(r"^\s+(\S+)\(\S*\)\s*$", lines[k])
        if not m:
            continue
        loc = lines[k + 1].strip()
        if "/src/" in loc and ("/go1." in loc or "/go/src/" in loc or "GOROOT" in loc):
            continue  # standard library / runtime
        return re.sub(r"\.func\d+(\.\d+)*$", "", m.group(1))
    return "?"


def parse_race_logs(rundir, passname):
    """returns {key: {...}}; key = ('corebgp'|'harness', frameA, frameB)"""
    reports = {}
    for path in glob.glob(os.path.join(rundir, "race.%s.*" % passname)):
        if path.endswith(".jsonl") or path.endswith(".log"):
            continue
        txt = open(path, errors="replace").read()
        for blk in RACE_SPLIT.split(txt):
            if "WARNING: DATA RACE" not in blk:
                continue
            secs = re.split(r"\n\n", blk.strip())
            tops = sorted(first_user_frame(s) for s in secs[:2])
            kind = "corebgp" if all(t.startswith("github.com/jwhited/corebgp.") for t in tops) else "harness"
            key = (kind,) + tuple(tops)
            reports.setdefault(key, {"count": 0, "text": blk.strip()[:8000]})
            reports[key]["count"] += 1
    return reports


def load_known():
    p = os.path.join(ROOT, "known_findings.json")
    if not os.path.exists(p):
        return {}
    k = json.load(open(p))
    return {(e["property"], e["key"]): e for e in k.get("known", [])}


LIVE = []


def _kill_children(*_a):
    for sh in LIVE:
        try:
            if sh.proc and sh.proc.poll() is None:
                sh.proc.kill()
        except Exception:
            pass
    if _a:
        sys.exit(2)


def main():
    import atexit
    atexit.register(_kill_children)
    signal.signal(signal.SIGTERM, _kill_children)
    signal.signal(signal.SIGINT, _kill_children)
    ap = argparse.ArgumentParser()
    ap.add_argument("prop")
    ap.add_argument("--tier", default=os.environ.get("VERIF_TIER", "quick"))
    ap.add_argument("--seed", type=int, default=int(os.environ.get("VERIF_SEED", "1") or 1))
    ap.add_argument("--replay")
    ap.add_argument("--keep", action="store_true")
    ap.add_argument("--race-all", action="store_true", help="dev-time self-check of the harness: run every pass of this check under the race detector")
    ap.add_argument("--cover", action="store_true", help="record statement coverage of corebgp under this check's workload (build/cover/<prop>.out)")
    ap.add_argument("--shards", type=int, default=int(os.environ.get("VERIF_SHARDS", "0") or 0))
    a = ap.parse_args()
    prop = a.prop
    global COVER
    COVER = a.cover
    if prop not in SPECS:
        print("unknown property", prop)
        sys.exit(2)
    spec = SPECS[prop]
    tier = a.tier if a.tier in ("quick", "thorough") else "quick"
    t0 = time.time()
    os.makedirs(os.path.join(ROOT, "build"), exist_ok=True)
    os.makedirs(os.path.join(ROOT, "evidence"), exist_ok=True)
    os.makedirs(os.path.join(ROOT, "replay"), exist_ok=True)
    # drop the leftovers of earlier failed runs of this property (their logs were kept for inspection)
    # (never the directory of a run that is still alive: checks may run concurrently)
    def _dead(d):
        try:
            os.kill(int(d.rsplit("-", 1)[1]), 0)
            return False
        except (ValueError, ProcessLookupError):
            return True
        except PermissionError:
            return False
    olds = [d for d in glob.glob(os.path.join(ROOT, "build", "run-%s-*" % prop)) if _dead(d)]
    for old in sorted(olds, key=os.path.getmtime)[:-2]:
        shutil.rmtree(old, ignore_errors=True)
    rundir = os.path.join(ROOT, "build", "run-%s-%d" % (prop, os.getpid()))
    shutil.rmtree(rundir, ignore_errors=True)
    os.makedirs(rundir)

    extra_env = {}
    passes = spec["passes"]
    if a.replay:
        rp = json.load(open(a.replay))
        extra_env["VERIF_ONLY"] = "%s=%d" % (rp["family"], rp["idx"])
        extra_env["VERIF_REPS"] = str(rp.get("reps", 50))
        a.seed = rp.get("seed", a.seed)
        tier = rp.get("tier", tier)
        passes = [p for p in passes if p["name"] == rp.get("pass", p["name"])]

    if a.race_all:
        passes = [dict(p, race=True, gomaxprocs=4) for p in passes if not p.get("env")]
    # build everything first (a build failure is never a verdict)
    bins = {}
    for p in passes:
        bins[p["name"]] = build(rundir, p["pkg"], p.get("race", False))

    allrecs = []
    races = {}
    infra = []
    for p in passes:
        if tier == "quick" and p.get("thorough_only"):
            continue
        n = a.shards or p.get("shards", NCPU)
        if a.replay:
            n = 1
        shards = [Shard(rundir, p["name"], p, bins[p["name"]], i, n, a.seed, tier, extra_env) for i in range(n)]
        for s in shards:
            s.start()
        LIVE[:] = shards
        while True:
            # poll every shard on every round (all() would stop at the first unfinished one
            # and starve the watchdogs of the others)
            states = [s.poll() for s in shards]
            if all(states):
                break
            time.sleep(0.2)
        LIVE[:] = []
        for s in shards:
            for r in s.records():
                r["pass"] = p["name"]
                if r.get("t") == "X":
                    infra.append(r)
                allrecs.append(r)
        if p.get("race"):
            for k, v in parse_race_logs(rundir, p["name"]).items():
                v["pass"] = p["name"]
                races[k] = v

    # ---- aggregate
    known = load_known()
    evals = 0
    sigs = set()
    fam = {}
    events = {}
    samples = []
    inconclusive = 0
    viols = []  # (record, why, finding, witness)
    infos = []
    for r in allrecs:
        if r.get("t") == "I":
            infos.append({"family": r.get("family"), **(r.get("info") or {})})
            continue
        if r.get("t") != "E":
            continue
        res = r["res"]
        e = res.get("evals") or 1
        evals += e
        f = fam.setdefault(r["family"], {"cases": 0, "evals": 0, "violated": 0, "inconclusive": 0})
        f["cases"] += 1
        f["evals"] += e
        if res.get("nontrivial"):
            if res.get("sig"):
                sigs.add(r["family"] + ":" + res["sig"])
            for s in res.get("sigs") or []:
                sigs.add(r["family"] + ":" + s)
        for k, v in (res.get("events") or {}).items():
            events[k] = events.get(k, 0) + v
        if res.get("sample") is not None and len(samples) < 6 and (len([s for s in samples if s.get("family") == r["family"]]) < 2):
            samples.append({"family": r["family"], "idx": r["idx"], "case": res["sample"]})
        if res["verdict"] == "inconclusive":
            inconclusive += 1
            f["inconclusive"] += 1
        if res["verdict"] == "violated":
            f["violated"] += 1
            viols.append((r, res.get("why", ""), res.get("finding", ""), res.get("witness")))
        for m in res.get("more") or []:
            f["violated"] += 1
            viols.append((r, m.get("why", ""), m.get("finding", ""), m.get("witness")))
    starts = {}
    for r in allrecs:
        if r.get("t") == "S":
            starts[(r["pass"], r["family"], r["idx"])] = r.get("params")

    race_list = []
    harness_races = []
    for k, v in races.items():
        if k and k[0] == "harness":
            harness_races.append({"frames": list(k[1:]), "count": v["count"], "text": v["text"]})
            infos.append({"family": "race", "race_with_a_harness_access": list(k[1:]), "count": v["count"]})
            continue
        k = k[1:]
        race_list.append({"frames": list(k), "count": v["count"], "pass": v["pass"]})
        fk = ""
        for (pp, kk), ent in known.items():
            if pp == prop and ent.get("race_frames") and sorted(ent["race_frames"]) == sorted(k):
                fk = kk
        viols.append(({"family": "race", "idx": len(race_list) - 1, "pass": v["pass"]},
                      "data race reported by the Go race detector between %s" % " and ".join(k), fk, {"report": v["text"]}))

    new_v = 0
    known_seen = {}
    out_lines = []
    groups = {}
    # report one witness of every kind of violation before second ones of any kind
    def _gk(v):
        return re.sub(r"0x[0-9a-f]+|[0-9a-f]{6,}|\d+", "#", v[1])[:100]
    seen_kinds = {}
    order = []
    for v in viols:
        k = _gk(v)
        seen_kinds[k] = seen_kinds.get(k, 0) + 1
        order.append((seen_kinds[k], len(order), v))
    order.sort(key=lambda x: (x[0], x[1]))
    viols = [v for _, _, v in order]
    for n, (r, why, finding, witness) in enumerate(viols):
        if finding and (prop, finding) in known:
            known_seen.setdefault(finding, 0)
            known_seen[finding] += 1
            continue
        new_v += 1
        gk = re.sub(r"0x[0-9a-f]+|[0-9a-f]{6,}|\d+", "#", why)[:100]
        groups[gk] = groups.get(gk, 0) + 1
        if groups[gk] <= 3 and len(out_lines) < MAX_REPORT:
            name = "%s-%d-%s-%s-%d.json" % (prop, a.seed, r.get("pass", "p"), re.sub(r"[^A-Za-z0-9_.]", "_", str(r.get("family"))), r.get("idx", 0))
            path = os.path.join(ROOT, "replay", name)
            k = 1
            while os.path.exists(path) and k < 50 and n > 0 and any(path == x for x in out_lines):
                path = os.path.join(ROOT, "replay", name.replace(".json", "-%d.json" % k))
                k += 1
            json.dump({"property": prop, "seed": a.seed, "tier": tier, "pass": r.get("pass"), "family": r.get("family"),
                       "idx": r.get("idx"), "params": r.get("params") or starts.get((r.get("pass"), r.get("family"), r.get("idx"))),
                       "why": why, "witness": witness,
                       "rerun": "./check %s --replay %s" % (prop, path)}, open(path, "w"), indent=1, default=str)
            out_lines.append(path)
            print("VIOLATION property=%s replay=%s" % (prop, path))
            print("  why: " + why.replace("\n", "\n       ")[:700])
    if new_v > len(out_lines):
        print("... and %d more violations of %s not written out; by kind:" % (new_v - len(out_lines), prop))
        for gk, cnt in sorted(groups.items(), key=lambda kv: -kv[1])[:30]:
            print("   %6d x %s" % (cnt, gk))
    for k, cnt in known_seen.items():
        print("KNOWN-FINDING: property=%s %s (%d occurrence(s) this run): %s" % (prop, k, cnt, known[(prop, k)].get("description", "")))

    wall = time.time() - t0
    cov = {
        "evaluations": evals,
        "distinct_nontrivial": len(sigs),
        "rule": spec["rule"],
        "samples": samples if samples else [{"note": "no sample recorded"}],
        "per_family": fam,
        "events": events,
        "inconclusive": inconclusive,
        "known_findings_seen": known_seen,
        "passes": [p["name"] for p in passes if not (tier == "quick" and p.get("thorough_only"))],
        "info": infos[:40],
    }
    if any(p.get("race") for p in passes):
        cov["race_reports_distinct"] = len(race_list)
        cov["race_reports"] = race_list[:20]
    if spec.get("exhaustive_note"):
        cov["exhaustive_parts"] = spec["exhaustive_note"]
    ev = {"property_id": prop, "tier": tier, "seed": a.seed, "level": spec["level"], "coverage": cov,
          "assumptions": spec.get("assumptions", []), "wall_s": round(wall, 2), "violations": new_v}
    if not a.replay:
        # evidence describes /repo only; a run against another tree (VERIF_REPO, dev-time
        # mutant runs) leaves its record in the run directory
        evdir = os.path.join(ROOT, "evidence") if not os.environ.get("VERIF_REPO") else rundir
        json.dump(ev, open(os.path.join(evdir, prop + ".json"), "w"), indent=1, default=str)

    print("%s tier=%s seed=%d: %d evaluations in %d cases, %d distinct non-trivial, %d violation(s), %d known, %d inconclusive, %.1fs"
          % (prop, tier, a.seed, evals, sum(f["cases"] for f in fam.values()), len(sigs), new_v, sum(known_seen.values()), inconclusive, wall))
    if a.replay:
        for r in allrecs:
            if r.get("t") == "E":
                print("replay verdict:", r["res"]["verdict"], "-", (r["res"].get("why") or "")[:2000])
                w = r["res"].get("witness")
                if w:
                    print(json.dumps(w, indent=1, default=str)[:20000])
    if COVER:
        merged = {}
        for path in glob.glob(os.path.join(rundir, "cover.*.out")):
            for line in open(path):
                if line.startswith("mode:"):
                    continue
                k, _, cnt = line.rstrip().rpartition(" ")
                merged[k] = merged.get(k, 0) + int(cnt)
        os.makedirs(os.path.join(ROOT, "build", "cover"), exist_ok=True)
        with open(os.path.join(ROOT, "build", "cover", prop + ".out"), "w") as f:
            f.write("mode: atomic\n")
            for k in sorted(merged):
                f.write("%s %d\n" % (k, merged[k]))
    rc = 0
    if new_v:
        rc = 1
    elif harness_races:
        for h in harness_races[:5]:
            print("HARNESS-RACE (a race whose accesses are not both in corebgp; fix the harness): %s x%d\n%s" % (h["frames"], h["count"], h["text"][:3000]))
        rc = 2
    elif infra:
        for x in infra:
            print("INFRASTRUCTURE: " + x["why"] + "\n" + x.get("tail", ""))
        rc = 2
    elif len(sigs) < 2 and not a.replay:
        print("INCONCLUSIVE: fewer than 2 distinct non-trivial cases were observed")
        rc = 2
    if not a.keep and rc == 0:
        shutil.rmtree(rundir, ignore_errors=True)
    elif not a.keep:
        # keep logs but drop the binaries
        for f in glob.glob(os.path.join(rundir, "*.test")):
            os.remove(f)
    sys.exit(rc)


if __name__ == "__main__":
    main()
