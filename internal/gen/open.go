package gen

import (
	"encoding/binary"
	"math/rand/v2"

	"verif/internal/wire"
)

// OpenCfgs is the configuration grid for OPEN acceptance (local AS, remote AS).
var OpenCfgs = [][2]uint32{
	{65001, 65002}, {65001, 65001}, {4200000001, 4200000002}, {65001, 4200000002}, {4200000001, 65002},
	{65001, 23456}, {4200000001, 4200000001}, {23456, 65002}, {65001, 1}, {65001, 65535}, {65001, 65536}, {65001, 4294967295},
}

func u32(v uint32) []byte { return binary.BigEndian.AppendUint32(nil, v) }

// ParamLayouts returns the hand-written optional-parameter layouts for a peer
// whose AS is remoteAS: well-formed ones and every structural corruption.
func ParamLayouts(remoteAS uint32) [][]byte {
	c65 := wire.FourOctetAS(remoteAS)
	c65bad := wire.FourOctetAS(remoteAS + 1)
	mp := wire.Cap{Code: 1, Value: []byte{0, 1, 0, 1}}
	rr := wire.Cap{Code: 2}
	big := wire.Cap{Code: 200, Value: make([]byte, 240)}
	P := func(caps ...wire.Cap) []byte { return wire.CapParam(caps...).Bytes() }
	cat := func(bs ...[]byte) []byte {
		var out []byte
		for _, b := range bs {
			out = append(out, b...)
		}
		return out
	}
	good := P(c65, mp)
	return [][]byte{
		nil,                       // empty list
		P(c65),                    // minimal
		good,                      // typical
		P(mp, rr, c65),            // 65 last
		cat(P(mp), P(c65)),        // two parameters
		cat(P(c65), P(mp), P(rr)), // three parameters
		P(c65, c65),               // repeated 65
		P(c65, c65bad),            // conflicting 65
		P(c65bad),                 // wrong AS
		P(mp, rr),                 // 65 missing
		P(mp),                     // 65 missing
		P(wire.Cap{Code: 65, Value: []byte{0, 1}}),          // 65 of length 2
		P(wire.Cap{Code: 65}),                               // 65 of length 0
		P(wire.Cap{Code: 65, Value: []byte{0, 0, 0, 1, 2}}), // 65 of length 5
		P(c65, big),                           // large but fitting
		{2, 0},                                // empty capabilities parameter
		cat([]byte{2, 0}, P(c65)),             // empty capabilities parameter then good
		cat(P(c65), []byte{2, 0}),             // good then empty capabilities parameter
		{1, 0},                                // unknown parameter type, empty
		cat([]byte{1, 2, 9, 9}, P(c65)),       // unknown parameter then good
		cat(P(c65), []byte{255, 1, 7}),        // good then unknown parameter
		{3, 1, 0},                             // unknown only
		{2},                                   // truncated parameter header
		cat(P(c65), []byte{2}),                // trailing single byte
		{2, 7, 65, 4, 0, 0},                   // parameter length overruns
		{2, 6, 65, 5, 0, 0, 0, 1},             // capability length overruns parameter
		{2, 5, 65, 4, 0, 0, 0},                // capability value cut short
		{2, 7, 65, 4, 0, 0, 0xfd, 0xea, 1},    // capability header cut short at end of parameter
		cat(P(c65), []byte{2, 3, 1, 4, 0}),    // second parameter malformed
		cat([]byte{2, 200}, make([]byte, 20)), // length octet far too large
		cat(P(c65), []byte{0}),                // trailing zero byte
	}
}

// OpenLattice enumerates the OPEN bodies of the field lattice for one
// configuration; fn is called with each body (optLen consistent).
func OpenLattice(localID uint32, remoteAS uint32, fn func(body []byte)) int {
	versions := []uint8{0, 3, 4, 5, 255}
	r16 := uint16(remoteAS)
	ass := []uint16{0, 1, r16, r16 + 1, r16 - 1, wire.ASTrans, 65535}
	holds := []uint16{0, 1, 2, 3, 4, 65535}
	ids := []uint32{0, localID, localID + 1, localID - 1, 0xE0000000, 0xEFFFFFFF, 0xDFFFFFFF, 0xF0000000, 0xFFFFFFFF, 0x0a000101}
	n := 0
	for _, lay := range ParamLayouts(remoteAS) {
		for _, v := range versions {
			for _, as := range ass {
				for _, h := range holds {
					for _, id := range ids {
						fn(wire.OpenBodyRaw(v, as, h, id, -1, lay))
						n++
					}
				}
			}
		}
	}
	return n
}

// RandCaps builds a random capability list.
func RandCaps(r *rand.Rand, remoteAS uint32, with65 bool) []wire.Cap {
	var caps []wire.Cap
	n := r.IntN(5)
	pos := r.IntN(n + 1)
	for i := 0; i <= n; i++ {
		if i == pos && with65 {
			caps = append(caps, wire.FourOctetAS(remoteAS))
			continue
		}
		c := wire.Cap{Code: uint8(r.IntN(256))}
		if c.Code == 65 {
			c.Code = 64
		}
		switch r.IntN(4) {
		case 0:
		case 1:
			c.Value = randBytes(r, 4)
		default:
			c.Value = randBytes(r, r.IntN(24))
		}
		caps = append(caps, c)
	}
	return caps
}

// RandOpenBody generates one OPEN body: about half acceptable for
// (localID, localAS, remoteAS), the rest with semantic or structural faults.
func RandOpenBody(r *rand.Rand, localID, localAS, remoteAS uint32) []byte {
	as2 := uint16(wire.ASTrans)
	if remoteAS <= 65535 && r.IntN(4) != 0 {
		as2 = uint16(remoteAS)
	}
	hold := []uint16{0, 3, 9, 90, 180, 65535}[r.IntN(6)]
	id := r.Uint32()
	for id>>28 == 0xE || id == localID {
		id = r.Uint32()
	}
	var params []byte
	nparams := 1 + r.IntN(3)
	at := r.IntN(nparams)
	for i := 0; i < nparams; i++ {
		params = append(params, wire.CapParam(RandCaps(r, remoteAS, i == at)...).Bytes()...)
	}
	for len(params) > 255 {
		params = wire.CapParam(wire.FourOctetAS(remoteAS)).Bytes()
	}
	version := uint8(4)
	// inject faults
	switch r.IntN(16) {
	case 0:
		version = uint8(r.IntN(256))
	case 1:
		as2 = uint16(r.Uint32())
	case 2:
		hold = uint16(1 + r.IntN(2))
	case 3:
		id = 0xE0000000 | r.Uint32()>>4
	case 4:
		id = localID
	case 5: // drop the 4-octet capability
		params = wire.CapParam(RandCaps(r, remoteAS, false)...).Bytes()
	case 6: // wrong AS in capability
		params = wire.CapParam(wire.FourOctetAS(remoteAS ^ (1 << r.IntN(32)))).Bytes()
	case 7: // unknown parameter
		params = append([]byte{uint8(r.IntN(256)), 1, 0}, params...)
	}
	body := wire.OpenBodyRaw(version, as2, hold, id, -1, params)
	switch r.IntN(12) {
	case 0:
		for m := 1 + r.IntN(2); m > 0; m-- {
			body = Mutate(r, body)
		}
	case 1:
		if len(body) > 10 { // corrupt a byte in the parameter area
			i := 9 + r.IntN(len(body)-9)
			body[i] += byte(1 + r.IntN(3))
		}
	case 2:
		body = body[:r.IntN(len(body)+1)]
	case 3:
		body = randBytes(r, r.IntN(64))
	case 4:
		if r.IntN(3) == 0 { // padded to (nearly) the largest message: 4094..4096 octets on the wire
			body = append(body, randBytes(r, wire.MaxBody-r.IntN(3)-len(body))...)
		}
	}
	if len(body) > wire.MaxBody {
		body = body[:wire.MaxBody]
	}
	return body
}

// PluginCaps generates the capability lists a plugin might return.
func PluginCaps(r *rand.Rand) []wire.Cap {
	var caps []wire.Cap
	n := r.IntN(8)
	switch r.IntN(10) {
	case 0:
		n = 0
	case 1:
		n = 20 + r.IntN(21)
	}
	target := -1
	if r.IntN(3) == 0 { // aim at the 255-byte boundary of the parameter
		target = 243 + r.IntN(14)
		n = 40
	}
	total := 6
	for i := 0; i < n; i++ {
		c := wire.Cap{Code: uint8(r.IntN(256))}
		if r.IntN(10) == 0 {
			c.Code = 65
		}
		l := r.IntN(12)
		switch r.IntN(20) {
		case 0:
			l = 250 + r.IntN(51) // around and above 255
		case 1:
			l = 100 + r.IntN(100)
		case 2:
			l = 0
		}
		if target >= 0 {
			l = r.IntN(40)
			if c.Code != 65 && total+2+l > target {
				l = target - total - 2
				if l < 0 {
					break
				}
				c.Value = randBytes(r, l)
				caps = append(caps, c)
				break
			}
		}
		c.Value = randBytes(r, l)
		if len(caps) > 0 && r.IntN(12) == 0 { // the same capability twice (same code, same value octets)
			d := caps[r.IntN(len(caps))]
			c = wire.Cap{Code: d.Code, Value: append([]byte(nil), d.Value...)}
			l = len(c.Value)
		}
		if c.Code != 65 {
			total += 2 + l
		}
		caps = append(caps, c)
	}
	return caps
}
