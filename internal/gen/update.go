// Package gen holds the seeded input generators. Every generator is a pure
// function of the *rand.Rand it is given.
package gen

import (
	"encoding/binary"
	"math/rand/v2"
)

// Alphabet is the protocol-relevant byte alphabet used for the exhaustive
// small-string enumeration of UPDATE bodies.
var Alphabet = []byte{0x00, 0x01, 0x02, 0x03, 0x04, 0x0e, 0x0f, 0x10, 0x40, 0x80, 0x90, 0xff}

// AlphaCount returns the number of strings of length <= maxLen over Alphabet.
func AlphaCount(maxLen int) int {
	n, p := 0, 1
	for l := 0; l <= maxLen; l++ {
		n += p
		p *= len(Alphabet)
	}
	return n
}

// AlphaString returns the idx-th string (shortlex order) over Alphabet.
func AlphaString(idx int) []byte {
	l, p := 0, 1
	for idx >= p {
		idx -= p
		p *= len(Alphabet)
		l++
	}
	b := make([]byte, l)
	for i := l - 1; i >= 0; i-- {
		b[i] = Alphabet[idx%len(Alphabet)]
		idx /= len(Alphabet)
	}
	return b
}

// Attr encodes one path attribute (extended length used when needed or forced).
func Attr(flags, code uint8, val []byte, forceExt bool) []byte {
	if len(val) > 255 || forceExt {
		flags |= 0x10
	}
	b := []byte{flags, code}
	if flags&0x10 != 0 {
		b = binary.BigEndian.AppendUint16(b, uint16(len(val)))
	} else {
		b = append(b, uint8(len(val)))
	}
	return append(b, val...)
}

// UpdateBody assembles an UPDATE body from its three sections.
func UpdateBody(withdrawn, attrs, nlri []byte) []byte {
	b := binary.BigEndian.AppendUint16(nil, uint16(len(withdrawn)))
	b = append(b, withdrawn...)
	b = binary.BigEndian.AppendUint16(b, uint16(len(attrs)))
	b = append(b, attrs...)
	return append(b, nlri...)
}

func randBytes(r *rand.Rand, n int) []byte {
	b := make([]byte, n)
	for i := range b {
		b[i] = byte(r.Uint32())
	}
	return b
}

// Prefixes encodes n random IPv4 (or IPv6) prefixes, optionally with path ids.
func Prefixes(r *rand.Rand, n int, v6, addPath bool) []byte {
	var b []byte
	max := 32
	if v6 {
		max = 128
	}
	for i := 0; i < n; i++ {
		if addPath {
			b = binary.BigEndian.AppendUint32(b, r.Uint32())
		}
		l := r.IntN(max + 1)
		b = append(b, byte(l))
		b = append(b, randBytes(r, (l+7)/8)...)
	}
	return b
}

var stdFlags = map[uint8]uint8{1: 0x40, 2: 0x40, 3: 0x40, 4: 0x80, 5: 0x40, 6: 0x40, 7: 0xc0, 8: 0xc0, 9: 0x80, 10: 0x80, 14: 0x80, 15: 0x80, 32: 0xc0}

// ValidAttrValue returns a well-formed value for a known attribute code.
func ValidAttrValue(r *rand.Rand, code uint8) []byte {
	switch code {
	case 1:
		return []byte{byte(r.IntN(3))}
	case 2:
		var b []byte
		for s := r.IntN(3); s >= 0; s-- {
			n := 1 + r.IntN(4)
			b = append(b, byte(1+r.IntN(2)), byte(n))
			b = append(b, randBytes(r, 4*n)...)
		}
		return b
	case 3, 4, 5, 9:
		return randBytes(r, 4)
	case 6:
		return nil
	case 7:
		return randBytes(r, 8)
	case 8, 10:
		return randBytes(r, 4*(1+r.IntN(4)))
	case 32:
		return randBytes(r, 12*(1+r.IntN(3)))
	case 14:
		nh := []int{4, 16, 32}[r.IntN(3)]
		b := []byte{0, byte(1 + r.IntN(2)), 1, byte(nh)}
		b = append(b, randBytes(r, nh)...)
		b = append(b, 0)
		return append(b, Prefixes(r, r.IntN(4), b[1] == 2, false)...)
	case 15:
		b := []byte{0, byte(1 + r.IntN(2)), 1}
		return append(b, Prefixes(r, r.IntN(4), b[1] == 2, false)...)
	}
	return randBytes(r, r.IntN(12))
}

var attrCodes = []uint8{1, 2, 3, 4, 5, 6, 7, 8, 9, 10, 14, 15, 32, 16, 0, 255, 33}

// GrammarUpdate builds a mostly well-formed UPDATE body: withdrawn routes,
// 0..maxAttrs attributes (with occasional duplicates and MP attributes), NLRI.
func GrammarUpdate(r *rand.Rand, maxAttrs int) []byte {
	var wd, attrs, nlri []byte
	if r.IntN(3) == 0 {
		wd = Prefixes(r, r.IntN(5), false, false)
	}
	n := r.IntN(maxAttrs + 1)
	var used []uint8
	withMandatory := r.IntN(4) != 0
	if withMandatory && n > 0 {
		attrs = append(attrs, Attr(0x40, 1, []byte{byte(r.IntN(3))}, r.IntN(8) == 0)...)
		attrs = append(attrs, Attr(0x40, 2, ValidAttrValue(r, 2), r.IntN(8) == 0)...)
		used = append(used, 1, 2)
	}
	for i := 0; i < n; i++ {
		var code uint8
		switch {
		case len(used) > 0 && r.IntN(6) == 0:
			code = used[r.IntN(len(used))] // duplicate
		case r.IntN(10) == 0:
			code = uint8(r.IntN(256))
		default:
			code = attrCodes[r.IntN(len(attrCodes))]
		}
		used = append(used, code)
		fl, ok := stdFlags[code]
		if !ok || r.IntN(12) == 0 {
			fl = uint8(r.IntN(16)) << 4
		}
		fl &^= 0x10
		val := ValidAttrValue(r, code)
		if r.IntN(10) == 0 {
			val = randBytes(r, r.IntN(300))
		}
		attrs = append(attrs, Attr(fl, code, val, r.IntN(8) == 0)...)
	}
	if r.IntN(2) == 0 {
		nlri = Prefixes(r, 1+r.IntN(4), false, false)
	}
	return UpdateBody(wd, attrs, nlri)
}

// Mutate applies one structural mutation to an UPDATE-like byte string.
func Mutate(r *rand.Rand, b []byte) []byte {
	b = append([]byte(nil), b...)
	if len(b) == 0 {
		return []byte{byte(r.Uint32())}
	}
	switch r.IntN(8) {
	case 0: // truncate
		return b[:r.IntN(len(b))]
	case 1: // extend
		return append(b, randBytes(r, 1+r.IntN(8))...)
	case 2: // +-1 on a byte (length fields are likely hit)
		i := r.IntN(len(b))
		if r.IntN(2) == 0 {
			b[i]++
		} else {
			b[i]--
		}
	case 3: // flip a bit
		i := r.IntN(len(b))
		b[i] ^= 1 << r.IntN(8)
	case 4: // overwrite a byte with a boundary value
		b[r.IntN(len(b))] = []byte{0, 1, 0x7f, 0x80, 0xfe, 0xff}[r.IntN(6)]
	case 5: // tweak the withdrawn length
		if len(b) >= 2 {
			binary.BigEndian.PutUint16(b, uint16(int(binary.BigEndian.Uint16(b))+r.IntN(5)-2))
		}
	case 6: // tweak the total attribute length
		if len(b) >= 4 {
			wrl := int(binary.BigEndian.Uint16(b))
			if len(b) >= 4+wrl {
				binary.BigEndian.PutUint16(b[2+wrl:], uint16(int(binary.BigEndian.Uint16(b[2+wrl:]))+r.IntN(5)-2))
			}
		}
	case 7: // delete a byte
		i := r.IntN(len(b))
		b = append(b[:i], b[i+1:]...)
	}
	return b
}

// BigUpdate builds a body of exactly n bytes (n may exceed 65535) whose two
// length fields take boundary values.
func BigUpdate(r *rand.Rand, n int) []byte {
	b := make([]byte, n)
	if r.IntN(2) == 0 {
		for i := range b {
			b[i] = byte(r.Uint32())
		}
	}
	if n < 4 {
		return b
	}
	bounds := []int{0, 1, 2, 3, 0x7fff, 0xfffb, 0xfffc, 0xfffd, 0xfffe, 0xffff, n - 4, n - 3, n - 5, n - 2}
	wrl := bounds[r.IntN(len(bounds))]
	if wrl < 0 {
		wrl = 0
	}
	wrl &= 0xffff
	binary.BigEndian.PutUint16(b, uint16(wrl))
	if 2+wrl+2 <= n {
		rest := n - 4 - wrl
		pb := []int{0, 1, rest, rest - 1, rest + 1, 0xffff, 0xfffe, rest & 0xffff}
		pal := pb[r.IntN(len(pb))]
		if pal < 0 {
			pal = 0
		}
		binary.BigEndian.PutUint16(b[2+wrl:], uint16(pal&0xffff))
	}
	return b
}

// UpdateInput returns the idx-th body of the standard mixed workload.
func UpdateInput(r *rand.Rand) []byte {
	switch k := r.IntN(20); {
	case k < 8:
		return GrammarUpdate(r, 8)
	case k < 15:
		b := GrammarUpdate(r, 8)
		for m := 1 + r.IntN(3); m > 0; m-- {
			b = Mutate(r, b)
		}
		return b
	case k < 17:
		return randBytes(r, r.IntN(64))
	case k < 18:
		// large but legal size
		b := GrammarUpdate(r, 20)
		if len(b) < 4077 && r.IntN(2) == 0 {
			b = append(b, Prefixes(r, (4077-len(b))/5, false, false)...)
			if len(b) > 4077 {
				b = b[:4077]
			}
		}
		return b
	case k < 19:
		return BigUpdate(r, []int{65535, 65536, 65537, 65538, 65539, 65540, 70000, 131072}[r.IntN(8)])
	default:
		return BigUpdate(r, 4+r.IntN(300))
	}
}
