package hz

import (
	"encoding/binary"
	"errors"
	"fmt"
	"io"
	"net"
	"net/netip"
	"sync"
	"syscall"
	"time"

	"verif/internal/memnet"
	"verif/internal/wire"
)

// RMsg is a message received by the remote from corebgp.
type RMsg struct {
	wire.Message
	Seq int
	At  time.Duration
}

// RConn is the remote end of one connection: it records and strictly parses
// every byte corebgp writes and lets the scenario script what is sent back.
type RConn struct {
	W      *World
	ID     int
	Dir    string // "in": remote dialled corebgp; "out": corebgp dialled the remote
	PeerIP netip.Addr
	Pair   *memnet.Pair
	C      *memnet.Conn

	Refused bool // listener was already closed

	mu        sync.Mutex
	cond      *sync.Cond
	parser    wire.Parser
	msgs      []RMsg
	eof       bool // corebgp closed (FIN) or reset
	eofAt     time.Duration
	eofSeq    int
	rdErr     error
	ownClosed bool
	readerEnd bool
	viol      []string
	sentBytes int
	lastTx    time.Duration
}

func newRConn(w *World, p *memnet.Pair, dir string, peer netip.Addr) *RConn {
	rc := &RConn{W: w, ID: p.ID, Dir: dir, PeerIP: peer, Pair: p, C: p.End(1)}
	rc.cond = sync.NewCond(&rc.mu)
	p.Tap0 = rc.tap
	go rc.reader()
	return rc
}

// tap observes every write corebgp makes on this connection at the moment
// the transport accepts it (called under the pair lock; must not call back
// into the pair).
func (rc *RConn) tap(b []byte) {
	rc.mu.Lock()
	for _, m := range rc.parser.Feed(b) {
		seq := rc.W.Log.Add("rx", rc.PeerIP.String(), rc.ID, m.String(), "")
		rc.msgs = append(rc.msgs, RMsg{Message: m, Seq: seq, At: rc.W.Now()})
	}
	if rc.parser.Err != nil && len(rc.viol) == 0 {
		v := fmt.Sprintf("conn %d (%s): corebgp wrote bytes that are not a well-formed BGP message stream: %v", rc.ID, rc.Dir, rc.parser.Err)
		rc.viol = append(rc.viol, v)
		rc.W.Log.Add("note", rc.PeerIP.String(), rc.ID, "WIRE-VIOLATION", v)
	}
	rc.cond.Broadcast()
	rc.mu.Unlock()
}

func (rc *RConn) reader() {
	buf := make([]byte, 8192)
	for {
		// the bytes themselves are judged by tap() at write time; the reader
		// only drains the pipe and notices the end of the connection
		_, err := rc.C.Read(buf)
		rc.mu.Lock()
		if err != nil {
			rc.rdErr = err
			rc.readerEnd = true
			if rc.ownClosed {
				// we closed our own end first: not an EOF caused by corebgp
			} else {
				rc.eof = true
				rc.eofAt = rc.W.Now()
				name := "EOF"
				if !errors.Is(err, io.EOF) {
					name = "RDERR " + err.Error()
				}
				rc.eofSeq = rc.W.Log.Add("eof", rc.PeerIP.String(), rc.ID, name, "")
				if rc.parser.Err == nil && rc.parser.Pending() != 0 {
					v := fmt.Sprintf("conn %d (%s): corebgp closed the connection after writing an incomplete message (%d trailing bytes)", rc.ID, rc.Dir, rc.parser.Pending())
					rc.viol = append(rc.viol, v)
					rc.W.Log.Add("note", rc.PeerIP.String(), rc.ID, "WIRE-VIOLATION", v)
				}
			}
			rc.cond.Broadcast()
			rc.mu.Unlock()
			return
		}
		rc.cond.Broadcast()
		rc.mu.Unlock()
	}
}

// Violations returns wire-level violations seen on this connection.
func (rc *RConn) Violations() []string {
	rc.mu.Lock()
	defer rc.mu.Unlock()
	return append([]string(nil), rc.viol...)
}

// Msgs returns the messages received so far.
func (rc *RConn) Msgs() []RMsg {
	rc.mu.Lock()
	defer rc.mu.Unlock()
	return append([]RMsg(nil), rc.msgs...)
}

// EOF reports whether corebgp has closed/reset the connection, and when.
func (rc *RConn) EOF() (bool, time.Duration) {
	rc.mu.Lock()
	defer rc.mu.Unlock()
	return rc.eof, rc.eofAt
}

// OwnClosed reports whether the remote closed this connection itself.
func (rc *RConn) OwnClosed() bool {
	rc.mu.Lock()
	defer rc.mu.Unlock()
	return rc.ownClosed
}

// Received returns the number of bytes corebgp wrote that reached the remote.
func (rc *RConn) Received() int {
	rc.mu.Lock()
	defer rc.mu.Unlock()
	return rc.parser.Total
}

func (rc *RConn) wait(timeout time.Duration, pred func() bool) bool {
	deadline := time.Now().Add(timeout)
	t := time.AfterFunc(timeout, func() {
		rc.mu.Lock()
		rc.cond.Broadcast()
		rc.mu.Unlock()
	})
	defer t.Stop()
	rc.mu.Lock()
	defer rc.mu.Unlock()
	for !pred() {
		if !time.Now().Before(deadline) {
			return false
		}
		rc.cond.Wait()
	}
	return true
}

// WaitMsgs waits until n messages have arrived (or EOF); it reports whether
// n messages are present.
func (rc *RConn) WaitMsgs(n int, timeout time.Duration) bool {
	rc.wait(timeout, func() bool { return len(rc.msgs) >= n || rc.eof || rc.readerEnd })
	rc.mu.Lock()
	defer rc.mu.Unlock()
	return len(rc.msgs) >= n
}

// WaitEOF waits until corebgp has closed the connection.
func (rc *RConn) WaitEOF(timeout time.Duration) bool {
	return rc.wait(timeout, func() bool { return rc.eof })
}

// Send writes bytes in one Write.
func (rc *RConn) Send(b []byte) error {
	_, err := rc.C.Write(b)
	rc.mu.Lock()
	rc.sentBytes += len(b)
	rc.lastTx = rc.W.Now()
	rc.mu.Unlock()
	return err
}

// SendMsg sends and logs one message.
func (rc *RConn) SendMsg(name string, b []byte) error {
	rc.W.Log.Add("tx", rc.PeerIP.String(), rc.ID, name, fmt.Sprintf("%d bytes", len(b)))
	return rc.Send(b)
}

// SendCuts writes b in pieces: cuts are ascending offsets at which the stream
// is split; gap is the virtual pause between writes (>=1ns makes each write a
// separate Read on corebgp's side).
func (rc *RConn) SendCuts(b []byte, cuts []int, gap time.Duration) error {
	prev := 0
	for _, c := range cuts {
		if c <= prev || c >= len(b) {
			continue
		}
		if err := rc.Send(b[prev:c]); err != nil {
			return err
		}
		prev = c
		if gap > 0 {
			time.Sleep(gap)
		}
	}
	return rc.Send(b[prev:])
}

// LastTx is the virtual time of the remote's last write.
func (rc *RConn) LastTx() time.Duration {
	rc.mu.Lock()
	defer rc.mu.Unlock()
	return rc.lastTx
}

// Close closes the remote end (FIN).
func (rc *RConn) Close() {
	rc.mu.Lock()
	already := rc.ownClosed
	if !rc.eof {
		rc.ownClosed = true
	}
	rc.mu.Unlock()
	if !already {
		rc.W.Log.Add("tx", rc.PeerIP.String(), rc.ID, "remote-close", "")
	}
	rc.C.Close()
}

// Reset aborts the connection from the remote end (RST).
func (rc *RConn) Reset() {
	rc.mu.Lock()
	if !rc.eof {
		rc.ownClosed = true
	}
	rc.mu.Unlock()
	rc.W.Log.Add("tx", rc.PeerIP.String(), rc.ID, "remote-reset", "")
	rc.C.Reset()
}

// NonceCap is the capability the remote adds to its OPENs so that each
// OnOpenMessage call identifies the connection it belongs to.
func (rc *RConn) NonceCap() wire.Cap {
	v := make([]byte, 4)
	binary.BigEndian.PutUint32(v, uint32(rc.ID))
	return wire.Cap{Code: CapRemoteNonce, Value: v}
}

// StdOpen builds the remote's usual OPEN for this connection.
func (rc *RConn) StdOpen(as uint32, hold uint16, id uint32, extra ...wire.Cap) *wire.Open {
	return wire.StdOpen(as, hold, id, append([]wire.Cap{rc.NonceCap()}, extra...)...)
}

// SendOpen sends an OPEN.
func (rc *RConn) SendOpen(o *wire.Open) error {
	return rc.SendMsg("OPEN", wire.Msg(wire.TypeOpen, o.Body()))
}

// SendKeepalive sends a KEEPALIVE.
func (rc *RConn) SendKeepalive() error { return rc.SendMsg("KEEPALIVE", wire.Keepalive()) }

// SendUpdate sends an UPDATE with the given body.
func (rc *RConn) SendUpdate(body []byte) error {
	return rc.SendMsg(fmt.Sprintf("UPDATE[%d]", len(body)), wire.Update(body))
}

// SendNotification sends a NOTIFICATION.
func (rc *RConn) SendNotification(code, sub uint8, data []byte) error {
	return rc.SendMsg(fmt.Sprintf("NOTIFICATION(%d,%d)", code, sub), wire.Notification(code, sub, data))
}

// IsReset reports whether an error is a connection reset.
func IsReset(err error) bool {
	var oe *net.OpError
	return errors.As(err, &oe) && errors.Is(oe.Err, syscall.ECONNRESET)
}

// Handshake drives a standard handshake from the remote side: waits for
// corebgp's OPEN, sends the remote's OPEN, waits for KEEPALIVE, sends
// KEEPALIVE. Returns false when corebgp's side did not follow.
func (rc *RConn) Handshake(as uint32, hold uint16, id uint32) bool {
	if !rc.WaitMsgs(1, 10*time.Second) {
		return false
	}
	if m := rc.Msgs()[0]; m.Type != wire.TypeOpen {
		return false
	}
	rc.SendOpen(rc.StdOpen(as, hold, id))
	if !rc.WaitMsgs(2, 10*time.Second) {
		return false
	}
	if m := rc.Msgs()[1]; m.Type != wire.TypeKeepalive {
		return false
	}
	rc.SendKeepalive()
	return true
}
