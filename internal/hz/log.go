package hz

import (
	"fmt"
	"sync"
	"time"
)

// Ev is one observed event. Events of all monitors of a world share one
// sequence counter taken at the monitors' boundaries.
type Ev struct {
	Seq    int
	At     time.Duration // virtual time since world start
	Kind   string        // cb | rx | tx | eof | tr | log | dial | api | note
	Peer   string
	Conn   int // -1 when not connection specific
	Name   string
	Detail string
}

func (e Ev) String() string {
	c := ""
	if e.Conn >= 0 {
		c = fmt.Sprintf(" conn=%d", e.Conn)
	}
	p := ""
	if e.Peer != "" {
		p = " " + e.Peer
	}
	d := ""
	if e.Detail != "" {
		d = " " + e.Detail
	}
	return fmt.Sprintf("#%d +%v %s%s%s %s%s", e.Seq, e.At, e.Kind, p, c, e.Name, d)
}

// Log is the event log of one world.
type Log struct {
	mu    sync.Mutex
	t0    time.Time
	evs   []Ev
	quiet bool
}

func (l *Log) Add(kind, peer string, conn int, name, detail string) int {
	if l == nil || l.quiet {
		return 0
	}
	now := time.Since(l.t0)
	l.mu.Lock()
	seq := len(l.evs)
	l.evs = append(l.evs, Ev{Seq: seq, At: now, Kind: kind, Peer: peer, Conn: conn, Name: name, Detail: detail})
	l.mu.Unlock()
	return seq
}

// Snapshot returns a copy of the events so far.
func (l *Log) Snapshot() []Ev {
	l.mu.Lock()
	defer l.mu.Unlock()
	return append([]Ev(nil), l.evs...)
}

// Dump renders at most max events (the tail is kept, the head summarised).
func (l *Log) Dump(max int) []string {
	evs := l.Snapshot()
	var out []string
	if len(evs) > max {
		out = append(out, fmt.Sprintf("... %d earlier events omitted ...", len(evs)-max))
		evs = evs[len(evs)-max:]
	}
	for _, e := range evs {
		out = append(out, e.String())
	}
	return out
}

// Sig hashes the ordered sequence of (kind, peer, conn, name) of the selected
// kinds: two executions with equal Sig went through the same observable
// interleaving of those events.
func (l *Log) Sig(kinds ...string) string {
	want := map[string]bool{}
	for _, k := range kinds {
		want[k] = true
	}
	h := uint64(1469598103934665603)
	mix := func(s string) {
		for i := 0; i < len(s); i++ {
			h ^= uint64(s[i])
			h *= 1099511628211
		}
		h ^= 0xff
		h *= 1099511628211
	}
	for _, e := range l.Snapshot() {
		if len(want) > 0 && !want[e.Kind] {
			continue
		}
		mix(e.Kind)
		mix(e.Peer)
		mix(fmt.Sprint(e.Conn))
		mix(e.Name)
	}
	return fmt.Sprintf("%x", h)
}

// Count returns the number of events of a kind (and name, if non-empty).
func (l *Log) Count(kind, name string) int {
	n := 0
	for _, e := range l.Snapshot() {
		if e.Kind == kind && (name == "" || e.Name == name) {
			n++
		}
	}
	return n
}
