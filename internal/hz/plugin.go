package hz

import (
	"bytes"
	"encoding/binary"
	"fmt"
	"net/netip"
	"sync"
	"time"
	"unsafe"

	"github.com/jwhited/corebgp"
)

const (
	// private-use capability codes used to make histories unambiguous
	CapLocalNonce  = 240 // put by the monitor plugin into every GetCapabilities result
	CapRemoteNonce = 241 // put by the scripted remote into every OPEN it sends
)

// PluginCfg selects the behaviour of the monitor plugin for one peer.
type PluginCfg struct {
	Caps       []corebgp.Capability
	NoNonce    bool
	NilHandler bool
	// OnOpen decides the return value of OnOpenMessage (nil func = accept).
	OnOpen func(call int, rid netip.Addr, caps []corebgp.Capability) *corebgp.Notification
	// OnEst runs inside OnEstablished.
	OnEst func(s *Session)
	// OnUpdate runs inside the update handler; idx counts deliveries of the session.
	OnUpdate func(s *Session, idx int, body []byte) *corebgp.Notification
	// OnCloseFn runs inside OnClose.
	OnCloseFn func(s *Session)
	// ProbeWriteInClose makes OnClose call WriteUpdate on the session's own
	// writer; the result is kept in Session.WriteInCloseErr.
	ProbeWriteInClose bool
	// CapsFn overrides Caps per call when set.
	CapsFn func(call int) []corebgp.Capability
	// SharedCaps (with NoNonce): GetCapabilities returns the stored Caps slice itself
	// on every call, as a plugin that keeps its list in a field does. The monitor
	// keeps a deep copy and reports a list that changed between calls: nobody but
	// corebgp has touched it.
	SharedCaps bool
}

const (
	stDown = iota
	stInEst
	stUp
	stInHandler
	stInClose
)

var stNames = []string{"Down", "InOnEstablished", "Up", "InHandler", "InOnClose"}

// GetCapsCall records one GetCapabilities invocation.
type GetCapsCall struct {
	Seq   int
	At    time.Duration
	Nonce uint32
}

// OpenCall records one OnOpenMessage invocation.
type OpenCall struct {
	Seq    int
	At     time.Duration
	RID    netip.Addr
	Caps   []corebgp.Capability
	Nonce  int64 // remote nonce found in caps, -1 if none
	Result *corebgp.Notification
	orig   []corebgp.Capability // the slice corebgp passed (checked for later modification)
}

// Modified reports whether the capabilities handed to OnOpenMessage changed
// after the call began.
func (o OpenCall) Modified() bool {
	if len(o.orig) != len(o.Caps) {
		return true
	}
	for i := range o.Caps {
		if o.orig[i].Code != o.Caps[i].Code || !bytes.Equal(o.orig[i].Value, o.Caps[i].Value) {
			return true
		}
	}
	return false
}

// Delivered is one handler invocation.
type Delivered struct {
	Seq  int
	At   time.Duration
	Body []byte // private copy taken at delivery
	orig []byte // the slice corebgp passed
}

// Session is one OnEstablished..OnClose epoch as seen by the plugin.
type Session struct {
	Mon        *PeerMon
	Epoch      int
	Writer     corebgp.UpdateMessageWriter
	EstEnter   int
	EstExit    int
	CloseEnter int
	CloseExit  int
	EstAt      time.Duration
	CloseAt    time.Duration
	Updates    []Delivered

	WriteInCloseDone bool
	WriteInCloseErr  error
}

// PeerMon is the monitor plugin of one configured peer: an online automaton
// over the callback history.
type PeerMon struct {
	W    *World
	Addr netip.Addr
	ID   uint32
	Cfg  PluginCfg

	mu       sync.Mutex
	state    int
	sealed   bool
	pristine []corebgp.Capability
	GetCaps  []GetCapsCall
	Opens    []OpenCall
	Sessions []*Session
	cur      *Session
	viol     []string
}

func (m *PeerMon) peer() string { return m.Addr.String() }

func (m *PeerMon) violate(format string, a ...any) {
	s := fmt.Sprintf("[%s] ", m.Addr) + fmt.Sprintf(format, a...)
	m.viol = append(m.viol, s)
	m.W.Log.Add("note", m.peer(), -1, "PLUGIN-VIOLATION", s)
}

// Seal marks the peer as stopped: any later callback is a violation.
func (m *PeerMon) Seal(why string) {
	m.mu.Lock()
	defer m.mu.Unlock()
	if m.sealed {
		return
	}
	m.sealed = true
	if m.state != stDown {
		m.violate("%s returned while plugin automaton is in %s (OnClose not delivered / callback still running)", why, stNames[m.state])
	}
}

// Violations returns the automaton violations seen so far.
func (m *PeerMon) Violations() []string {
	m.mu.Lock()
	defer m.mu.Unlock()
	return append([]string(nil), m.viol...)
}

// State returns the automaton state name.
func (m *PeerMon) State() string {
	m.mu.Lock()
	defer m.mu.Unlock()
	return stNames[m.state]
}

// Up reports whether a session is currently established (between
// OnEstablished return and OnClose entry).
func (m *PeerMon) Up() bool {
	m.mu.Lock()
	defer m.mu.Unlock()
	return m.state == stUp || m.state == stInHandler
}

// Cur returns the current session (nil when down).
func (m *PeerMon) Cur() *Session {
	m.mu.Lock()
	defer m.mu.Unlock()
	return m.cur
}

// Snapshot returns copies of the recorded histories.
func (m *PeerMon) Snapshot() (gc []GetCapsCall, op []OpenCall, ss []*Session) {
	m.mu.Lock()
	defer m.mu.Unlock()
	return append([]GetCapsCall(nil), m.GetCaps...), append([]OpenCall(nil), m.Opens...), append([]*Session(nil), m.Sessions...)
}

func (m *PeerMon) enter(name string) bool {
	if m.sealed {
		m.violate("%s invoked after Close/DeletePeer returned", name)
		return false
	}
	return true
}

func (m *PeerMon) GetCapabilities(peer corebgp.PeerConfig) []corebgp.Capability {
	m.mu.Lock()
	m.enter("GetCapabilities")
	call := len(m.GetCaps)
	nonce := m.ID<<16 | uint32(call&0xffff)
	seq := m.W.Log.Add("cb", m.peer(), -1, "GetCapabilities", fmt.Sprintf("nonce=%08x", nonce))
	m.GetCaps = append(m.GetCaps, GetCapsCall{Seq: seq, At: m.W.Now(), Nonce: nonce})
	if peer.RemoteAddress != m.Addr {
		m.violate("GetCapabilities called with config of %s", peer.RemoteAddress)
	}
	caps := m.Cfg.Caps
	if m.Cfg.CapsFn != nil {
		caps = m.Cfg.CapsFn(call)
	}
	if m.Cfg.SharedCaps && m.Cfg.NoNonce && m.Cfg.CapsFn == nil {
		if m.pristine == nil {
			for _, c := range caps {
				m.pristine = append(m.pristine, corebgp.Capability{Code: c.Code, Value: append([]byte(nil), c.Value...)})
			}
		} else {
			same := len(caps) == len(m.pristine)
			for i := 0; same && i < len(caps); i++ {
				same = caps[i].Code == m.pristine[i].Code && string(caps[i].Value) == string(m.pristine[i].Value)
			}
			if !same {
				m.violate("the capability list the plugin keeps and returns from GetCapabilities was modified by corebgp after call %d: now %v, the plugin's list is %v", call-1, caps, m.pristine)
			}
		}
		m.mu.Unlock()
		return caps
	}
	m.mu.Unlock()
	out := append([]corebgp.Capability(nil), caps...)
	if !m.Cfg.NoNonce {
		v := make([]byte, 4)
		binary.BigEndian.PutUint32(v, nonce)
		out = append(out, corebgp.Capability{Code: CapLocalNonce, Value: v})
	}
	return out
}

func (m *PeerMon) OnOpenMessage(peer corebgp.PeerConfig, rid netip.Addr, caps []corebgp.Capability) *corebgp.Notification {
	m.mu.Lock()
	m.enter("OnOpenMessage")
	call := len(m.Opens)
	oc := OpenCall{At: m.W.Now(), RID: rid, Nonce: -1, orig: caps}
	for _, c := range caps {
		oc.Caps = append(oc.Caps, corebgp.Capability{Code: c.Code, Value: append([]byte(nil), c.Value...)})
		if c.Code == CapRemoteNonce && len(c.Value) == 4 {
			oc.Nonce = int64(binary.BigEndian.Uint32(c.Value))
		}
	}
	oc.Seq = m.W.Log.Add("cb", m.peer(), int(oc.Nonce), "OnOpenMessage", fmt.Sprintf("rid=%s ncaps=%d", rid, len(caps)))
	if m.state != stDown {
		// an OPEN may legitimately be processed on the other connection while a
		// session is up (it is then killed at OpenConfirm); only record it
		m.W.Log.Add("note", m.peer(), -1, "OnOpenMessage-while-"+stNames[m.state], "")
	}
	fn := m.Cfg.OnOpen
	m.mu.Unlock()
	var n *corebgp.Notification
	if fn != nil {
		n = fn(call, rid, oc.Caps)
	}
	oc.Result = n
	m.mu.Lock()
	m.Opens = append(m.Opens, oc)
	m.mu.Unlock()
	return n
}

func (m *PeerMon) OnEstablished(peer corebgp.PeerConfig, w corebgp.UpdateMessageWriter) corebgp.UpdateMessageHandler {
	m.mu.Lock()
	m.enter("OnEstablished")
	s := &Session{Mon: m, Epoch: len(m.Sessions), Writer: w, EstExit: -1, CloseEnter: -1, CloseExit: -1, EstAt: m.W.Now()}
	s.EstEnter = m.W.Log.Add("cb", m.peer(), -1, "OnEstablished.enter", fmt.Sprintf("epoch=%d", s.Epoch))
	if m.state != stDown {
		m.violate("OnEstablished (epoch %d) while automaton in %s: two sessions Established at once or callbacks overlap", s.Epoch, stNames[m.state])
	}
	m.state = stInEst
	m.Sessions = append(m.Sessions, s)
	m.cur = s
	if n := m.W.addrUp(m.Addr, +1); n > 1 {
		m.violate("OnEstablished while %d other session(s) for the same peer address are Established (across AddPeer/DeletePeer generations)", n-1)
	}
	fn := m.Cfg.OnEst
	m.mu.Unlock()

	if fn != nil {
		fn(s)
	}

	m.mu.Lock()
	s.EstExit = m.W.Log.Add("cb", m.peer(), -1, "OnEstablished.exit", "")
	if m.state != stInEst || m.cur != s {
		m.violate("automaton left %s during OnEstablished (now %s)", stNames[stInEst], stNames[m.state])
	}
	m.state = stUp
	m.mu.Unlock()
	if m.Cfg.NilHandler {
		return nil
	}
	return func(peer corebgp.PeerConfig, body []byte) *corebgp.Notification {
		return m.handle(s, peer, body)
	}
}

func (m *PeerMon) handle(s *Session, peer corebgp.PeerConfig, body []byte) *corebgp.Notification {
	m.mu.Lock()
	m.enter("UpdateMessageHandler")
	idx := len(s.Updates)
	d := Delivered{At: m.W.Now(), Body: append([]byte{}, body...), orig: body}
	d.Seq = m.W.Log.Add("cb", m.peer(), -1, "Handler.enter", fmt.Sprintf("epoch=%d idx=%d len=%d", s.Epoch, idx, len(body)))
	if m.state != stUp || m.cur != s {
		cur := -1
		if m.cur != nil {
			cur = m.cur.Epoch
		}
		m.violate("handler of epoch %d invoked while automaton in %s (current epoch %d): outside OnEstablished-return..OnClose or overlapping another handler", s.Epoch, stNames[m.state], cur)
	}
	prev := m.state
	m.state = stInHandler
	s.Updates = append(s.Updates, d)
	fn := m.Cfg.OnUpdate
	m.mu.Unlock()

	var n *corebgp.Notification
	if fn != nil {
		n = fn(s, idx, d.Body)
	}

	m.mu.Lock()
	m.W.Log.Add("cb", m.peer(), -1, "Handler.exit", "")
	if m.state != stInHandler {
		m.violate("automaton left InHandler during handler (now %s)", stNames[m.state])
	}
	if prev == stUp {
		m.state = stUp
	} else {
		m.state = prev
	}
	m.mu.Unlock()
	return n
}

func (m *PeerMon) OnClose(peer corebgp.PeerConfig) {
	m.mu.Lock()
	m.enter("OnClose")
	s := m.cur
	seq := m.W.Log.Add("cb", m.peer(), -1, "OnClose.enter", "")
	if m.state != stUp || s == nil {
		m.violate("OnClose while automaton in %s (no matching OnEstablished, duplicate OnClose, or overlapping callback)", stNames[m.state])
	}
	m.state = stInClose
	if s != nil {
		s.CloseEnter = seq
		s.CloseAt = m.W.Now()
		m.W.addrUp(m.Addr, -1)
	}
	fn := m.Cfg.OnCloseFn
	probe := m.Cfg.ProbeWriteInClose
	m.mu.Unlock()

	if s != nil && probe {
		err := s.Writer.WriteUpdate([]byte{0, 0, 0, 0})
		s.WriteInCloseDone = true
		s.WriteInCloseErr = err
	}
	if s != nil && fn != nil {
		fn(s)
	}

	m.mu.Lock()
	x := m.W.Log.Add("cb", m.peer(), -1, "OnClose.exit", "")
	if s != nil {
		s.CloseExit = x
	}
	if m.state != stInClose {
		m.violate("automaton left InOnClose during OnClose (now %s)", stNames[m.state])
	}
	m.state = stDown
	m.cur = nil
	m.mu.Unlock()
}

// CheckDelivered verifies that no delivered slice was modified after delivery
// and that no two delivered slices share memory.
func (m *PeerMon) CheckDelivered() []string {
	m.mu.Lock()
	defer m.mu.Unlock()
	var out []string
	for i, o := range m.Opens {
		if o.Modified() {
			out = append(out, fmt.Sprintf("[%s] OnOpenMessage call %d: the capabilities passed to the plugin were modified after the call began", m.Addr, i))
		}
	}
	type span struct{ lo, hi uintptr }
	var spans []span
	for _, s := range m.Sessions {
		for i, d := range s.Updates {
			if !bytes.Equal(d.Body, d.orig) {
				out = append(out, fmt.Sprintf("[%s] epoch %d update %d: delivered slice changed after delivery", m.Addr, s.Epoch, i))
			}
			if cap(d.orig) > 0 {
				lo := uintptr(unsafe.Pointer(unsafe.SliceData(d.orig)))
				sp := span{lo, lo + uintptr(cap(d.orig))}
				for _, o := range spans {
					if sp.lo < o.hi && o.lo < sp.hi {
						out = append(out, fmt.Sprintf("[%s] epoch %d update %d: delivered slice shares memory with an earlier delivered slice", m.Addr, s.Epoch, i))
						break
					}
				}
				spans = append(spans, sp)
			}
		}
	}
	return out
}

// QuietPlugin is used in race-detector passes: it takes no locks and records
// nothing shared, so that the harness adds no happens-before edges between
// corebgp goroutines.
type QuietPlugin struct {
	Caps []corebgp.Capability
	// OnEst runs inside OnEstablished (may start writer goroutines).
	OnEst func(w corebgp.UpdateMessageWriter)
}

func (q *QuietPlugin) GetCapabilities(corebgp.PeerConfig) []corebgp.Capability { return q.Caps }
func (q *QuietPlugin) OnOpenMessage(corebgp.PeerConfig, netip.Addr, []corebgp.Capability) *corebgp.Notification {
	return nil
}
func (q *QuietPlugin) OnEstablished(_ corebgp.PeerConfig, w corebgp.UpdateMessageWriter) corebgp.UpdateMessageHandler {
	if q.OnEst != nil {
		q.OnEst(w)
	}
	return func(corebgp.PeerConfig, []byte) *corebgp.Notification { return nil }
}
func (q *QuietPlugin) OnClose(corebgp.PeerConfig) {}
