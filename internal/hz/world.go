// Package hz is the virtual-time harness (Engine V): a corebgp Server running
// inside a testing/synctest bubble on in-memory connections, a scripted remote
// speaker, and the monitors that watch both.
package hz

import (
	"context"
	"errors"
	"fmt"
	"net"
	"net/netip"
	"os"
	"regexp"
	"runtime"
	"strings"
	"sync"
	"sync/atomic"
	"syscall"
	"testing"
	"testing/synctest"
	"time"

	"github.com/jwhited/corebgp"

	"verif/internal/memnet"
)

// Hook modes for the schedule points compiled into corebgp with -tags verif.
const (
	HookOff    = 0
	HookVSleep = 1 // seeded virtual delays (only safe when Server.mu is never contended)
	HookYield  = 2 // seeded runtime.Gosched bursts
)

// Opts configures a world.
type Opts struct {
	Seed          uint64
	HookMode      int
	HookMax       time.Duration            // upper bound of a vsleep delay (default 2µs)
	HookDelays    map[string]time.Duration // fixed delay per site (overrides the seeded one)
	LisCloseDelay time.Duration            // closing the listener takes this long
	EOFWithData   bool                     // corebgp's Reads return the last bytes of a closed connection together with io.EOF
	WriteYields   int                      // every Write by corebgp yields the processor that many times first
	CloseYields   int                      // every Close by corebgp yields the processor that many times first
	CloseDelay    time.Duration            // every Close by corebgp takes this long (only for worlds in which Server.mu is never contended)
	Quiet         bool                     // no event log, no hook counters (race passes)
	LocalID       netip.Addr
	LocalAddr     netip.Addr
	NoServe       bool
	Limit         time.Duration // virtual watchdog (default 6h)
	// ExtraListeners: number of additional listeners handed to Serve (connections
	// can be injected through any of them with ConnectVia)
	ExtraListeners int
	// IDMayBeRejected: NewServer may legitimately refuse LocalID; the world then
	// does not run and Outcome.IDRejected is set
	IDMayBeRejected bool
	NoListener      bool
}

// DialAction is the scenario's decision for one outbound dial attempt.
type DialAction int

const (
	DialRefuse DialAction = iota
	DialAccept
	DialStall
	DialReal // fall through to the real net.Dialer
	// DialAcceptBroken: the connection comes up, but the remote has reset it before
	// corebgp writes anything: the first write fails.
	DialAcceptBroken
)

// DialReq describes one outbound dial attempt made by corebgp.
type DialReq struct {
	N     int
	Peer  netip.Addr
	At    time.Duration
	Local netip.Addr
	Port  int
}

// DialRec is the log entry of a dial attempt.
type DialRec struct {
	DialReq
	Action    DialAction
	Cancelled bool
	DoneAt    time.Duration
	Conn      *RConn
}

// World is one execution: a Server, its peers, remote connections, monitors.
type World struct {
	T     *testing.T
	O     Opts
	Srv   *corebgp.Server
	Lis   *memnet.Listener
	Extra []*memnet.Listener // additional listeners (Opts.ExtraListeners)
	Log   *Log
	T0    time.Time
	done  chan struct{}

	mu       sync.Mutex
	cond     *sync.Cond
	serving  bool
	served   bool
	serveErr error
	serveRet bool
	closed   bool
	mons     map[netip.Addr]*PeerMon
	allMons  []*PeerMon
	conns    []*RConn
	pairs    []*memnet.Pair
	dials    []*DialRec
	viol     []string
	nextID   int
	nextPort uint16
	sameInst int
	lastDial time.Duration

	// DialPolicy decides the fate of each outbound attempt (default: refuse).
	DialPolicy func(DialReq) (DialAction, time.Duration)
	// OnOut, if set, is run in a new goroutine for every accepted outbound conn.
	OnOut func(rc *RConn)

	hookHits [16]atomic.Int64
	upByAddr map[netip.Addr]int
	monIDs   atomic.Int64
	Trans    []TransRec
}

// TransRec is one line of corebgp's transition log.
type TransRec struct {
	Seq  int
	At   time.Duration
	Peer string
	Dir  string
	From string
	To   string
}

var hookSites = []string{"fsm.req", "fsm.approved", "fsm.err", "dial.done", "wu.write", "est.teardown", "est.onclose", "peer.trans", "peer.collide", "peer.inconn"}

func siteIdx(s string) int {
	for i, n := range hookSites {
		if n == s {
			return i
		}
	}
	return len(hookSites)
}

var current atomic.Pointer[World]

var installOnce sync.Once

var transRe = regexp.MustCompile(`^\[([^\]]+)\] FSM-(in|out) transition (\w+) => (\w+)$`)

func install() {
	installOnce.Do(func() {
		corebgp.VerifHook = func(site string, peer netip.Addr, dir int) {
			w := current.Load()
			if w == nil {
				return
			}
			w.hook(site, peer, dir)
		}
		corebgp.VerifDial = func(ctx context.Context, peer corebgp.PeerConfig, laddr netip.Addr, port int) (net.Conn, error, bool) {
			w := current.Load()
			if w == nil {
				return nil, errors.New("no world"), true
			}
			return w.dial(ctx, peer, laddr, port)
		}
		if os.Getenv("VERIF_NOLOGGER") == "" {
			corebgp.SetLogger(func(v ...any) {
				w := current.Load()
				if w == nil || w.O.Quiet {
					return
				}
				w.logLine(fmt.Sprint(v...))
			})
		}
	})
}

func mix64(x uint64) uint64 {
	x ^= x >> 33
	x *= 0xff51afd7ed558ccd
	x ^= x >> 33
	x *= 0xc4ceb9fe1a85ec53
	x ^= x >> 33
	return x
}

func (w *World) hook(site string, peer netip.Addr, dir int) {
	if !w.O.Quiet {
		w.hookHits[siteIdx(site)].Add(1)
	}
	if d, ok := w.O.HookDelays[site]; ok {
		if d > 0 {
			time.Sleep(d)
		}
		return
	}
	switch w.O.HookMode {
	case HookVSleep:
		h := mix64(w.O.Seed ^ uint64(siteIdx(site))*0x9e3779b97f4a7c15 ^ uint64(dir+2)<<40 ^ uint64(time.Since(w.T0)))
		if peer.IsValid() {
			b := peer.As16()
			h = mix64(h ^ uint64(b[15]) ^ uint64(b[14])<<8)
		}
		max := w.O.HookMax
		if max <= 0 {
			max = 2 * time.Microsecond
		}
		// a third of the hits are not delayed at all
		if h%3 != 0 {
			time.Sleep(time.Duration((h >> 8) % uint64(max)))
		}
	case HookYield:
		h := mix64(w.O.Seed ^ uint64(siteIdx(site))*0x9e3779b97f4a7c15 ^ uint64(dir+2)<<40 ^ uint64(time.Since(w.T0)))
		for i := uint64(0); i < h%5; i++ {
			runtime.Gosched()
		}
	}
}

// HookHits returns the number of times each schedule point was reached.
func (w *World) HookHits() map[string]int {
	m := map[string]int{}
	for i, s := range hookSites {
		if n := w.hookHits[i].Load(); n > 0 {
			m[s] = int(n)
		}
	}
	return m
}

func (w *World) logLine(s string) {
	if m := transRe.FindStringSubmatch(s); m != nil {
		seq := w.Log.Add("tr", m[1], -1, "FSM-"+m[2]+" "+m[3]+"=>"+m[4], "")
		w.mu.Lock()
		w.Trans = append(w.Trans, TransRec{Seq: seq, At: w.Now(), Peer: m[1], Dir: m[2], From: m[3], To: m[4]})
		w.mu.Unlock()
		return
	}
	w.Log.Add("log", "", -1, s, "")
}

// addrUp adjusts and returns the number of Established sessions (as seen by
// the plugins) for one peer address across all monitor generations.
func (w *World) addrUp(a netip.Addr, d int) int {
	w.mu.Lock()
	defer w.mu.Unlock()
	if w.upByAddr == nil {
		w.upByAddr = map[netip.Addr]int{}
	}
	w.upByAddr[a] += d
	return w.upByAddr[a]
}

// TransSnapshot returns a copy of the transition log so far.
func (w *World) TransSnapshot() []TransRec {
	w.mu.Lock()
	defer w.mu.Unlock()
	return append([]TransRec(nil), w.Trans...)
}

// Now is the virtual time since the world started.
func (w *World) Now() time.Duration { return time.Since(w.T0) }

// Violate records a violation found by a monitor or scenario oracle.
func (w *World) Violate(format string, a ...any) {
	s := fmt.Sprintf(format, a...)
	w.mu.Lock()
	w.viol = append(w.viol, s)
	w.mu.Unlock()
	w.Log.Add("note", "", -1, "VIOLATION", s)
}

// Violations returns all violations recorded so far (scenario, plugin
// automata, wire monitors).
func (w *World) Violations() []string {
	w.mu.Lock()
	out := append([]string(nil), w.viol...)
	mons := append([]*PeerMon(nil), w.allMons...)
	conns := append([]*RConn(nil), w.conns...)
	w.mu.Unlock()
	for _, m := range mons {
		out = append(out, m.Violations()...)
	}
	for _, c := range conns {
		out = append(out, c.Violations()...)
	}
	return out
}

// Settle is the barrier between deterministic steps: it lets every causal
// chain triggered so far (including injected µs hook delays) finish.
func (w *World) Settle() {
	time.Sleep(time.Millisecond)
	synctest.Wait()
}

// Outcome is what Run returns about a world.
type Outcome struct {
	Violations []string
	Panic      string // non-empty when the bubble deadlocked / panicked
	Stacks     string
	Fatal      bool // process must exit after reporting (leaked goroutines)
	Log        []string
	Trace      []string // the first events of the world (always kept; shown as a sample in evidence files)
	Sig        string
	Hooks      map[string]int
	Elapsed    time.Duration // virtual
	IDRejected bool          // NewServer refused the router id (see Opts.IDMayBeRejected)
}

// ExitAfterReport is called by checks after writing the END record of a case
// whose Outcome.Fatal is set.
func ExitAfterReport() { os.Exit(3) }

// Run executes fn inside a fresh bubble with a fresh Server and returns what
// the monitors saw. fn is the director; it must return in bounded virtual
// time. Run always closes the server and checks for leaks afterwards.
func Run(t *testing.T, o Opts, fn func(w *World)) (out Outcome) {
	install()
	if !o.LocalID.IsValid() {
		o.LocalID = netip.MustParseAddr("10.0.0.1")
	}
	if !o.LocalAddr.IsValid() {
		o.LocalAddr = netip.MustParseAddr("10.0.0.1")
	}
	if o.Limit == 0 {
		o.Limit = 6 * time.Hour
	}
	var w *World
	defer func() {
		if r := recover(); r != nil {
			out.Panic = fmt.Sprint(r)
			buf := make([]byte, 1<<20)
			out.Stacks = string(buf[:runtime.Stack(buf, true)])
			out.Fatal = true
			if w != nil {
				out.Violations = append(w.Violations(), "bubble panic: "+out.Panic)
				out.Log = w.Log.Dump(400)
			} else {
				out.Violations = []string{"bubble panic: " + out.Panic}
			}
			current.Store(nil)
		}
	}()
	synctest.Test(t, func(t *testing.T) {
		w = &World{T: t, O: o, T0: time.Now(), done: make(chan struct{}), mons: map[netip.Addr]*PeerMon{}, nextPort: 20000}
		w.cond = sync.NewCond(&w.mu)
		w.Log = &Log{t0: w.T0, quiet: o.Quiet}
		srv, err := corebgp.NewServer(o.LocalID)
		if err != nil {
			if o.IDMayBeRejected {
				out.IDRejected = true
				return
			}
			panic(err)
		}
		w.Srv = srv
		if !o.NoListener {
			w.Lis = memnet.NewListener(netip.AddrPortFrom(o.LocalAddr, 179))
			w.Lis.CloseDelay = o.LisCloseDelay
			for k := 0; k < o.ExtraListeners; k++ {
				w.Extra = append(w.Extra, memnet.NewListener(netip.AddrPortFrom(o.LocalAddr, uint16(1179+k))))
			}
		}
		current.Store(w)
		// virtual watchdog
		go func() {
			select {
			case <-w.done:
			case <-time.After(o.Limit):
				// the director never finished although far more virtual time passed than any
				// scenario needs (e.g. Close waiting for something that keeps re-arming timers):
				// report and end the process, the driver attributes it to the case in flight
				fmt.Fprintf(os.Stderr, "VERIF-FATAL world exceeded its virtual time limit of %v: the scenario (a Close, DeletePeer, WriteUpdate or wait in it) never completed\n%s\n", o.Limit, strings.Join(w.Log.Dump(80), "\n"))
				os.Exit(4)
			}
		}()
		if !o.NoServe {
			w.Serve()
		}
		fn(w)
		w.finish()
		close(w.done)
		out.Violations = w.Violations()
		out.Sig = w.Log.Sig("tr", "cb")
		out.Hooks = w.HookHits()
		out.Elapsed = w.Now()
		if !o.Quiet {
			evs := w.Log.Snapshot()
			if len(evs) > 36 {
				evs = evs[:36]
			}
			for _, e := range evs {
				out.Trace = append(out.Trace, e.String())
			}
		}
		if len(out.Violations) > 0 {
			out.Log = w.Log.Dump(400)
		}
		current.Store(nil)
	})
	return out
}

// Serve starts Server.Serve in its own goroutine.
func (w *World) Serve() {
	w.mu.Lock()
	if w.serving {
		w.mu.Unlock()
		return
	}
	w.serving = true
	w.served = true
	w.mu.Unlock()
	var ls []net.Listener
	if w.Lis != nil {
		ls = []net.Listener{w.Lis}
		for _, l := range w.Extra {
			ls = append(ls, l)
		}
	}
	go func() {
		w.Log.Add("api", "", -1, "Serve.call", "")
		err := w.Srv.Serve(ls)
		w.Log.Add("api", "", -1, "Serve.return", fmt.Sprint(err))
		w.mu.Lock()
		w.serveErr = err
		w.serveRet = true
		w.serving = false
		w.cond.Broadcast()
		w.mu.Unlock()
	}()
	// let Serve reach its accept loop
	synctest.Wait()
}

// ServeResult reports whether Serve has returned and with what.
func (w *World) ServeResult() (bool, error) {
	w.mu.Lock()
	defer w.mu.Unlock()
	return w.serveRet, w.serveErr
}

func (w *World) gate() func() {
	if w.O.HookMode == HookVSleep && w.Lis != nil {
		w.mu.Lock()
		s := w.serving
		w.mu.Unlock()
		if s && w.Lis.Gate() {
			var gated []*memnet.Listener
			for _, l := range w.Extra {
				if l.Gate() {
					gated = append(gated, l)
				}
			}
			return func() {
				w.Lis.Ungate()
				for _, l := range gated {
					l.Ungate()
				}
			}
		}
	}
	return func() {}
}

// PeerSpec describes a peer to add.
type PeerSpec struct {
	Addr         netip.Addr
	LocalAS      uint32
	RemoteAS     uint32
	Passive      bool
	Hold         int // seconds; -1 = library default
	IdleHold     time.Duration
	ConnectRetry time.Duration
	Port         int
	LocalAddress netip.Addr
	DialControl  func(network, address string, c syscall.RawConn) error
	Cfg          PluginCfg
	Plugin       corebgp.Plugin // overrides the monitor plugin (quiet passes)
}

// StdPeer is a peer spec with the harness defaults (eBGP 65001 -> 65002).
func StdPeer(addr string) PeerSpec {
	return PeerSpec{Addr: netip.MustParseAddr(addr), LocalAS: 65001, RemoteAS: 65002, Hold: -1}
}

func (ps PeerSpec) options() []corebgp.PeerOption {
	var o []corebgp.PeerOption
	if ps.Passive {
		o = append(o, corebgp.WithPassive())
	}
	if ps.Hold >= 0 {
		o = append(o, corebgp.WithHoldTime(uint16(ps.Hold)))
	}
	if ps.IdleHold != 0 {
		o = append(o, corebgp.WithIdleHoldTime(ps.IdleHold))
	}
	if ps.ConnectRetry != 0 {
		o = append(o, corebgp.WithConnectRetryTime(ps.ConnectRetry))
	}
	if ps.Port != 0 {
		o = append(o, corebgp.WithPort(ps.Port))
	}
	if ps.LocalAddress.IsValid() {
		o = append(o, corebgp.WithLocalAddress(ps.LocalAddress))
	}
	if ps.DialControl != nil {
		o = append(o, corebgp.WithDialerControl(ps.DialControl))
	}
	return o
}

// AddPeer adds a peer with a fresh monitor plugin.
func (w *World) AddPeer(ps PeerSpec) (*PeerMon, error) {
	id := uint32(w.monIDs.Add(1))
	m := &PeerMon{W: w, Addr: ps.Addr, ID: id, Cfg: ps.Cfg}
	var pl corebgp.Plugin = m
	if ps.Plugin != nil {
		pl = ps.Plugin
	}
	un := w.gate()
	w.Log.Add("api", ps.Addr.String(), -1, "AddPeer.call", "")
	err := w.Srv.AddPeer(corebgp.PeerConfig{RemoteAddress: ps.Addr, LocalAS: ps.LocalAS, RemoteAS: ps.RemoteAS}, pl, ps.options()...)
	w.Log.Add("api", ps.Addr.String(), -1, "AddPeer.return", fmt.Sprint(err))
	un()
	if err != nil {
		return nil, err
	}
	w.mu.Lock()
	w.mons[ps.Addr] = m
	w.allMons = append(w.allMons, m)
	w.mu.Unlock()
	return m, nil
}

// MustAddPeer is AddPeer for specs that must be valid.
func (w *World) MustAddPeer(ps PeerSpec) *PeerMon {
	m, err := w.AddPeer(ps)
	if err != nil {
		panic(fmt.Sprintf("AddPeer(%v): %v", ps.Addr, err))
	}
	return m
}

// DeletePeer deletes a peer and seals its monitor when the call returns.
func (w *World) DeletePeer(a netip.Addr) error {
	un := w.gate()
	w.Log.Add("api", a.String(), -1, "DeletePeer.call", "")
	err := w.Srv.DeletePeer(a)
	w.Log.Add("api", a.String(), -1, "DeletePeer.return", fmt.Sprint(err))
	un()
	if err == nil {
		w.mu.Lock()
		m := w.mons[a]
		delete(w.mons, a)
		w.mu.Unlock()
		if m != nil {
			m.Seal("DeletePeer")
		}
	}
	return err
}

// Close closes the server and seals every monitor when the call returns.
func (w *World) Close() {
	un := w.gate()
	w.Log.Add("api", "", -1, "Close.call", "")
	w.Srv.Close()
	w.Log.Add("api", "", -1, "Close.return", "")
	un()
	w.mu.Lock()
	w.closed = true
	mons := append([]*PeerMon(nil), w.allMons...)
	served := w.served
	w.mu.Unlock()
	if served {
		for _, m := range mons {
			m.mu.Lock()
			sealed := m.sealed
			m.mu.Unlock()
			if !sealed {
				m.Seal("Close")
			}
		}
	}
}

// Mon returns the monitor of a currently configured peer.
func (w *World) Mon(a netip.Addr) *PeerMon {
	w.mu.Lock()
	defer w.mu.Unlock()
	return w.mons[a]
}

func (w *World) newPair(a0, a1 netip.AddrPort) *memnet.Pair {
	w.mu.Lock()
	id := w.nextID
	w.nextID++
	p := memnet.NewPair(id, a0, a1)
	p.CloseDelay0 = w.O.CloseDelay
	p.CloseYields0 = w.O.CloseYields
	p.WriteYields0 = w.O.WriteYields
	p.EOFWithData0 = w.O.EOFWithData
	w.pairs = append(w.pairs, p)
	w.mu.Unlock()
	return p
}

func (w *World) ephemeral() uint16 {
	w.mu.Lock()
	defer w.mu.Unlock()
	w.nextPort++
	return w.nextPort
}

// Connect opens an inbound connection from src to the server's listener
// address and returns the remote end (its reader already running).
func (w *World) Connect(src netip.Addr) *RConn {
	return w.ConnectTo(src, w.O.LocalAddr)
}

// ConnectTo opens an inbound connection from src to an explicit destination
// address (what corebgp sees as the connection's local address).
func (w *World) ConnectTo(src, dst netip.Addr) *RConn {
	return w.ConnectVia(0, src, dst)
}

// ConnectVia is ConnectTo through listener k (0 = the main one, 1.. = Extra).
func (w *World) ConnectVia(k int, src, dst netip.Addr) *RConn {
	lis := w.Lis
	if k > 0 && k <= len(w.Extra) {
		lis = w.Extra[k-1]
	}
	p := w.newPair(netip.AddrPortFrom(dst, 179), netip.AddrPortFrom(src, w.ephemeral()))
	rc := newRConn(w, p, "in", src)
	w.mu.Lock()
	w.conns = append(w.conns, rc)
	w.mu.Unlock()
	w.Log.Add("note", src.String(), rc.ID, "remote-connects", "dst="+dst.String())
	if lis == nil || !lis.Inject(p.End(0)) {
		rc.Refused = true
	}
	return rc
}

// ConnectRaw is ConnectVia with the addresses corebgp sees given as net.Addr
// values (label only names the connection in the log).
func (w *World) ConnectRaw(k int, label netip.Addr, src, dst net.Addr) *RConn {
	lis := w.Lis
	if k > 0 && k <= len(w.Extra) {
		lis = w.Extra[k-1]
	}
	p := w.newPair(netip.AddrPortFrom(w.O.LocalAddr, 179), netip.AddrPortFrom(label, w.ephemeral()))
	p.SetAddr(0, dst)
	p.SetAddr(1, src)
	rc := newRConn(w, p, "in", label)
	w.mu.Lock()
	w.conns = append(w.conns, rc)
	w.mu.Unlock()
	w.Log.Add("note", label.String(), rc.ID, "remote-connects", "raw src="+src.String()+" dst="+dst.String())
	if lis == nil || !lis.Inject(p.End(0)) {
		rc.Refused = true
	}
	return rc
}

// Conns returns all remote-side connections created so far.
func (w *World) Conns() []*RConn {
	w.mu.Lock()
	defer w.mu.Unlock()
	return append([]*RConn(nil), w.conns...)
}

// Dials returns the outbound dial attempts seen so far.
func (w *World) Dials() []DialRec {
	w.mu.Lock()
	defer w.mu.Unlock()
	out := make([]DialRec, len(w.dials))
	for i, d := range w.dials {
		out[i] = *d
	}
	return out
}

// OutConns returns the accepted outbound connections in dial order.
func (w *World) OutConns() []*RConn {
	w.mu.Lock()
	defer w.mu.Unlock()
	var out []*RConn
	for _, d := range w.dials {
		if d.Conn != nil {
			out = append(out, d.Conn)
		}
	}
	return out
}

// WaitOut waits (virtual timeout) until at least n outbound connections have
// been accepted and returns the n-th (1-based), or nil.
func (w *World) WaitOut(n int, timeout time.Duration) *RConn {
	deadline := time.Now().Add(timeout)
	t := time.AfterFunc(timeout, func() {
		w.mu.Lock()
		w.cond.Broadcast()
		w.mu.Unlock()
	})
	defer t.Stop()
	w.mu.Lock()
	defer w.mu.Unlock()
	for {
		k := 0
		for _, d := range w.dials {
			if d.Conn != nil {
				k++
				if k == n {
					return d.Conn
				}
			}
		}
		if !time.Now().Before(deadline) {
			return nil
		}
		w.cond.Wait()
	}
}

var errRefused = &net.OpError{Op: "dial", Net: "tcp", Err: syscall.ECONNREFUSED}

func (w *World) dial(ctx context.Context, peer corebgp.PeerConfig, laddr netip.Addr, port int) (net.Conn, error, bool) {
	now := w.Now()
	w.mu.Lock()
	if now == w.lastDial {
		w.sameInst++
	} else {
		w.sameInst = 0
		w.lastDial = now
	}
	busy := w.sameInst > 2000
	req := DialReq{N: len(w.dials), Peer: peer.RemoteAddress, At: now, Local: laddr, Port: port}
	pol := w.DialPolicy
	rec := &DialRec{DialReq: req}
	w.dials = append(w.dials, rec)
	w.mu.Unlock()
	if busy {
		// corebgp redials without letting (virtual) time pass: the bubble can
		// never become idle, so report and stop the process.
		fmt.Fprintf(os.Stderr, "VERIF-FATAL busy-redial: more than 2000 dial attempts to %s at one virtual instant (+%v)\n", peer.RemoteAddress, now)
		os.Exit(4)
	}
	act, lat := DialRefuse, time.Duration(0)
	if pol != nil {
		act, lat = pol(req)
	}
	w.mu.Lock()
	rec.Action = act
	w.mu.Unlock()
	w.Log.Add("dial", peer.RemoteAddress.String(), -1, "dial", fmt.Sprintf("n=%d action=%d lat=%v", req.N, act, lat))
	if act == DialReal {
		return nil, nil, false
	}
	if lat > 0 || act == DialStall {
		var tc <-chan time.Time
		if act != DialStall {
			tm := time.NewTimer(lat)
			defer tm.Stop()
			tc = tm.C
		}
		select {
		case <-ctx.Done():
			w.mu.Lock()
			rec.Cancelled = true
			rec.DoneAt = w.Now()
			w.mu.Unlock()
			w.Log.Add("dial", peer.RemoteAddress.String(), -1, "dial-cancelled", fmt.Sprintf("n=%d", req.N))
			return nil, &net.OpError{Op: "dial", Net: "tcp", Err: ctx.Err()}, true
		case <-tc:
		}
	}
	if act == DialRefuse {
		w.mu.Lock()
		rec.DoneAt = w.Now()
		w.mu.Unlock()
		return nil, errRefused, true
	}
	src := laddr
	if !src.IsValid() {
		src = w.O.LocalAddr
	}
	p := w.newPair(netip.AddrPortFrom(src, w.ephemeral()), netip.AddrPortFrom(peer.RemoteAddress, uint16(port)))
	if act == DialAcceptBroken {
		p.FailWriteAt = 1
	}
	rc := newRConn(w, p, "out", peer.RemoteAddress)
	w.mu.Lock()
	w.conns = append(w.conns, rc)
	rec.Conn = rc
	rec.DoneAt = w.Now()
	on := w.OnOut
	w.cond.Broadcast()
	w.mu.Unlock()
	w.Log.Add("dial", peer.RemoteAddress.String(), rc.ID, "dial-accepted", fmt.Sprintf("n=%d", req.N))
	if on != nil {
		go on(rc)
	}
	return p.End(0), nil, true
}

// finish closes the server (if the scenario has not), waits for quiescence
// and runs the end-of-world monitors: connection accountant and leak probe.
func (w *World) finish() {
	w.mu.Lock()
	closed := w.closed
	w.mu.Unlock()
	if !closed {
		w.Close()
	}
	w.Settle()
	w.mu.Lock()
	served, ret := w.served, w.serveRet
	err := w.serveErr
	w.mu.Unlock()
	if served && !ret {
		w.Violate("Serve has not returned after Close returned and the bubble became idle")
	} else if served && err != corebgp.ErrServerClosed && !strings.HasPrefix(fmt.Sprint(err), "listener error") {
		w.Violate("Serve returned %v, want ErrServerClosed", err)
	}
	w.CheckConnsClosed("Close")
	// remote ends are closed by the harness so their reader goroutines exit
	for _, c := range w.Conns() {
		c.Close()
	}
	w.Settle()
	if leaks := CorebgpGoroutines(); len(leaks) > 0 {
		w.Violate("goroutine leak after Close: %d goroutine(s) with corebgp frames still exist:\n%s", len(leaks), strings.Join(leaks, "\n---\n"))
	}
	for _, m := range w.allMons {
		for _, v := range m.CheckDelivered() {
			w.Violate("%s", v)
		}
	}
}

// OpenPairsOf returns the connections involving peer a that corebgp has not
// closed on its side.
func (w *World) OpenPairsOf(a netip.Addr) []*RConn {
	var out []*RConn
	for _, c := range w.Conns() {
		if c.PeerIP == a && !c.Refused && c.Pair.Closed(0) == 0 {
			out = append(out, c)
		}
	}
	return out
}

// HeldPairsOf returns the peer's connections that corebgp has used (at least one
// Read or Write call on its end) and not closed: connections it holds.
func (w *World) HeldPairsOf(a netip.Addr) []*RConn {
	var out []*RConn
	for _, c := range w.OpenPairsOf(a) {
		if c.Pair.Ops(0) > 0 {
			out = append(out, c)
		}
	}
	return out
}

// CheckConnsClosed asserts that corebgp closed its end of every connection it
// was ever given (used after Close has returned).
func (w *World) CheckConnsClosed(after string) {
	w.mu.Lock()
	pairs := append([]*memnet.Pair(nil), w.pairs...)
	w.mu.Unlock()
	for _, p := range pairs {
		if p.Closed(0) == 0 {
			// a connection still queued in a closed listener was closed by the
			// listener itself; Inject/Close handle that, so anything left is held
			// by corebgp
			w.Violate("connection %d (%v <-> %v) is still open on corebgp's side after %s returned", p.ID, p.End(0).LocalAddr(), p.End(0).RemoteAddr(), after)
		}
	}
}

// CorebgpGoroutinesExceptServe is CorebgpGoroutines without the goroutines
// that belong to Server.Serve itself (used after DeletePeer on a live server).
func CorebgpGoroutinesExceptServe() []string {
	var out []string
	for _, g := range CorebgpGoroutines() {
		if !strings.Contains(g, "corebgp.(*Server).Serve") {
			out = append(out, g)
		}
	}
	return out
}

// CorebgpGoroutines returns the stacks of all goroutines that have a frame in
// package corebgp (excluding the caller's own).
func CorebgpGoroutines() []string {
	buf := make([]byte, 1<<20)
	for {
		n := runtime.Stack(buf, true)
		if n < len(buf) {
			buf = buf[:n]
			break
		}
		buf = make([]byte, 2*len(buf))
	}
	var out []string
	for i, g := range strings.Split(string(buf), "\n\n") {
		if i == 0 {
			continue // the calling goroutine
		}
		if strings.Contains(g, "github.com/jwhited/corebgp.") {
			out = append(out, g)
		}
	}
	return out
}
