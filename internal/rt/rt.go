// Package rt is the child-process side of the check protocol: case
// enumeration by shard, START/END records in a JSONL file, seeded PRNGs.
//
// Environment (set by driver/run.py):
//
//	VERIF_OUT    path of the JSONL file this process appends to
//	VERIF_SHARD  "i/n": run the cases whose index mod n == i
//	VERIF_SEED   integer seed (default 1)
//	VERIF_TIER   quick | thorough
//	VERIF_FROM   first case index to run (used to restart after a crash)
//	VERIF_ONLY   run only this case index of this family (replay)
package rt

import (
	"encoding/json"
	"fmt"
	"hash/fnv"
	"math/rand/v2"
	"os"
	"strconv"
	"strings"
	"sync"
)

type Ctx struct {
	mu      sync.Mutex
	out     *os.File
	Shard   int
	NShards int
	Seed    uint64
	Tier    string
	From    map[string]int
	Only    map[string]int
	Reps    int
}

var (
	once sync.Once
	ctx  *Ctx
)

// Get returns the process-wide context.
func Get() *Ctx {
	once.Do(func() {
		c := &Ctx{NShards: 1, Seed: 1, Tier: "quick", From: map[string]int{}, Only: map[string]int{}, Reps: 1}
		if s := os.Getenv("VERIF_SHARD"); s != "" {
			fmt.Sscanf(s, "%d/%d", &c.Shard, &c.NShards)
		}
		if s := os.Getenv("VERIF_SEED"); s != "" {
			if v, err := strconv.ParseInt(s, 10, 64); err == nil {
				c.Seed = uint64(v)
			}
		}
		if s := os.Getenv("VERIF_TIER"); s != "" {
			c.Tier = s
		}
		parse := func(env string, m map[string]int) {
			// family=idx,family=idx
			for _, kv := range strings.Split(os.Getenv(env), ",") {
				if k, v, ok := strings.Cut(kv, "="); ok {
					if n, err := strconv.Atoi(v); err == nil {
						m[k] = n
					}
				}
			}
		}
		parse("VERIF_FROM", c.From)
		parse("VERIF_ONLY", c.Only)
		if s := os.Getenv("VERIF_REPS"); s != "" {
			if v, err := strconv.Atoi(s); err == nil && v > 0 {
				c.Reps = v
			}
		}
		if p := os.Getenv("VERIF_OUT"); p != "" {
			f, err := os.OpenFile(p, os.O_CREATE|os.O_WRONLY|os.O_APPEND, 0o644)
			if err != nil {
				panic(err)
			}
			c.out = f
		}
		ctx = c
	})
	return ctx
}

// Thorough reports whether the thorough tier was requested.
func (c *Ctx) Thorough() bool { return c.Tier == "thorough" }

// N picks the case count for the tier.
func (c *Ctx) N(quick, thorough int) int {
	if c.Thorough() {
		return thorough
	}
	return quick
}

// Mine reports whether case idx of a family belongs to this shard/run.
func (c *Ctx) Mine(family string, idx int) bool {
	if o, ok := c.Only[family]; ok {
		return idx == o
	}
	if len(c.Only) > 0 {
		return false
	}
	if idx < c.From[family] {
		return false
	}
	return idx%c.NShards == c.Shard
}

// Rand returns a PRNG that is a pure function of (seed, family, idx).
func (c *Ctx) Rand(family string, idx int) *rand.Rand {
	h := fnv.New64a()
	fmt.Fprintf(h, "%d/%s/%d", c.Seed, family, idx)
	s := h.Sum64()
	return rand.New(rand.NewPCG(s, s^0x9e3779b97f4a7c15))
}

type rec struct {
	T      string         `json:"t"`
	Family string         `json:"family"`
	Idx    int            `json:"idx"`
	Params any            `json:"params,omitempty"`
	Res    *Result        `json:"res,omitempty"`
	Info   map[string]any `json:"info,omitempty"`
}

// Result is the verdict on one case (one world, one batch of inputs).
type Result struct {
	Verdict    string         `json:"verdict"` // held | violated | inconclusive
	Why        string         `json:"why,omitempty"`
	Finding    string         `json:"finding,omitempty"` // known-finding key explaining the violation, if any
	Sig        string         `json:"sig,omitempty"`     // signature used to count distinct cases
	Sigs       []string       `json:"sigs,omitempty"`    // for batches: several signatures
	Nontrivial bool           `json:"nontrivial"`
	Evals      int            `json:"evals,omitempty"` // evaluations inside this case (batches); 0 means 1
	Events     map[string]int `json:"events,omitempty"`
	Sample     any            `json:"sample,omitempty"`
	Witness    any            `json:"witness,omitempty"`
	// Extra violations found in the same batch (each becomes its own report)
	More []Violation `json:"more,omitempty"`
}

// Violation is an additional violation reported from inside a batch case.
type Violation struct {
	Why     string `json:"why"`
	Finding string `json:"finding,omitempty"`
	Witness any    `json:"witness,omitempty"`
}

func (c *Ctx) write(r rec) {
	if c.out == nil {
		return
	}
	b, err := json.Marshal(r)
	if err != nil {
		b, _ = json.Marshal(rec{T: r.T, Family: r.Family, Idx: r.Idx, Res: &Result{Verdict: "inconclusive", Why: "marshal: " + err.Error()}})
	}
	b = append(b, '\n')
	c.mu.Lock()
	c.out.Write(b)
	c.mu.Unlock()
}

// Start records that a case is about to run (so a crash can be attributed).
func (c *Ctx) Start(family string, idx int, params any) {
	c.write(rec{T: "S", Family: family, Idx: idx, Params: params})
}

// End records the verdict of a case.
func (c *Ctx) End(family string, idx int, res Result) {
	c.write(rec{T: "E", Family: family, Idx: idx, Res: &res})
}

// Info records free-form information for the evidence file.
func (c *Ctx) Info(family string, info map[string]any) {
	c.write(rec{T: "I", Family: family, Info: info})
}

// Held is a convenience constructor.
func Held(sig string, nontrivial bool) Result {
	return Result{Verdict: "held", Sig: sig, Nontrivial: nontrivial}
}

// Violated is a convenience constructor.
func Violated(why string, witness any) Result {
	return Result{Verdict: "violated", Why: why, Witness: witness, Nontrivial: true}
}

// Hash is a short stable hash used for signatures.
func Hash(parts ...any) string {
	h := fnv.New64a()
	for _, p := range parts {
		fmt.Fprintf(h, "%v|", p)
	}
	return strconv.FormatUint(h.Sum64(), 36)
}
