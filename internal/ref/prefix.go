package ref

import "encoding/binary"

// Route is one decoded prefix-list entry.
type Route struct {
	ID    uint32 // add-path identifier (0 when not add-path)
	Bits  int
	Addr  []byte // ceil(Bits/8) octets as on the wire
	Octet int    // offset of the entry in the field (for diagnostics)
}

// DecodePrefixes is the reference decoder of an RFC 4271 §4.3 prefix list
// (optionally RFC 7911 add-path encoded). ok is false exactly when a length
// octet exceeds the address size or the field ends inside an entry.
func DecodePrefixes(b []byte, v6, addPath bool) (routes []Route, ok bool) {
	max := 32
	if v6 {
		max = 128
	}
	off := 0
	for off < len(b) {
		var r Route
		r.Octet = off
		if addPath {
			if len(b)-off < 4 {
				return nil, false
			}
			r.ID = binary.BigEndian.Uint32(b[off:])
			off += 4
			if off >= len(b) {
				return nil, false
			}
		}
		r.Bits = int(b[off])
		off++
		if r.Bits > max {
			return nil, false
		}
		n := (r.Bits + 7) / 8
		if len(b)-off < n {
			return nil, false
		}
		r.Addr = b[off : off+n]
		off += n
		routes = append(routes, r)
	}
	return routes, true
}

// MaskedEqual reports whether the first bits bits of a and b agree (b may be
// longer than a: a full 4/16 byte address).
func MaskedEqual(a, b []byte, bits int) bool {
	for i := 0; i < (bits+7)/8; i++ {
		if i >= len(a) || i >= len(b) {
			return false
		}
		m := byte(0xff)
		if rem := bits - 8*i; rem < 8 {
			m = ^byte(0xff >> rem)
		}
		if a[i]&m != b[i]&m {
			return false
		}
	}
	return true
}

// MPReach is the reference split of an MP_REACH_NLRI attribute value
// (RFC 4760 §3): AFI(2) SAFI(1) NHLen(1) NextHop(NHLen) Reserved(1) NLRI(...).
type MPReach struct {
	OK      bool
	AFI     uint16
	SAFI    uint8
	NextHop []byte
	NLRI    []byte
}

func SplitMPReach(b []byte) MPReach {
	if len(b) < 5 {
		return MPReach{}
	}
	nh := int(b[3])
	if len(b) < 4+nh+1 {
		return MPReach{}
	}
	return MPReach{OK: true, AFI: binary.BigEndian.Uint16(b), SAFI: b[2], NextHop: b[4 : 4+nh], NLRI: b[5+nh:]}
}

// MPUnreach is the reference split of MP_UNREACH_NLRI: AFI(2) SAFI(1) Withdrawn.
type MPUnreach struct {
	OK        bool
	AFI       uint16
	SAFI      uint8
	Withdrawn []byte
}

func SplitMPUnreach(b []byte) MPUnreach {
	if len(b) < 3 {
		return MPUnreach{}
	}
	return MPUnreach{OK: true, AFI: binary.BigEndian.Uint16(b), SAFI: b[2], Withdrawn: b[3:]}
}
