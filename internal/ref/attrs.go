package ref

import "encoding/binary"

// AttrRule is one row of the attribute table (RFC 4271 §5, RFC 7606 §7,
// RFC 1997, RFC 4456, RFC 8092, RFC 6793 with 4-octet AS numbers).
type AttrRule struct {
	Code       uint8
	Name       string
	Optional   bool
	Transitive bool
	// Discard: a malformed value is handled by attribute-discard instead of
	// treat-as-withdraw (ATOMIC_AGGREGATE, AGGREGATOR).
	Discard bool
}

var AttrTable = []AttrRule{
	{1, "ORIGIN", false, true, false},
	{2, "AS_PATH", false, true, false},
	{3, "NEXT_HOP", false, true, false},
	{4, "MULTI_EXIT_DISC", true, false, false},
	{5, "LOCAL_PREF", false, true, false},
	{6, "ATOMIC_AGGREGATE", false, true, true},
	{7, "AGGREGATOR", true, true, true},
	{8, "COMMUNITIES", true, true, false},
	{9, "ORIGINATOR_ID", true, false, false},
	{10, "CLUSTER_LIST", true, false, false},
	{32, "LARGE_COMMUNITIES", true, true, false},
}

// AttrVerdict is the reference result of decoding one attribute.
type AttrVerdict struct {
	OK bool
	// on failure
	Class    int     // ClassWithdraw or ClassDiscard
	Subcodes []uint8 // acceptable RFC 4271 subcodes of the fallback NOTIFICATION
	// on success: the decoded value in a normal form
	U32s  []uint32 // ORIGIN (1 value), MED, LOCAL_PREF, COMMUNITIES, AGGREGATOR AS, large communities flattened
	Addrs [][]byte // NEXT_HOP, ORIGINATOR_ID, CLUSTER_LIST, AGGREGATOR IP
	Seq   []uint32 // AS_PATH: all AS numbers of AS_SEQUENCE segments in wire order
	Set   []uint32 // AS_PATH: all AS numbers of AS_SET segments in wire order
}

func u32s(b []byte) []uint32 {
	var out []uint32
	for len(b) >= 4 {
		out = append(out, binary.BigEndian.Uint32(b))
		b = b[4:]
	}
	return out
}

// valueFault returns the acceptable subcodes when the value is malformed for
// the attribute, or nil when the value is well-formed (then v is filled).
func valueFault(code uint8, b []byte, v *AttrVerdict) []uint8 {
	const (
		lenErr    = 5
		originErr = 6
		asPathErr = 11
	)
	switch code {
	case 1:
		if len(b) != 1 {
			return []uint8{lenErr}
		}
		if b[0] > 2 {
			return []uint8{originErr}
		}
		v.U32s = []uint32{uint32(b[0])}
	case 2:
		rest := b
		for len(rest) > 0 {
			if len(rest) < 2 {
				return []uint8{asPathErr, lenErr}
			}
			typ, n := rest[0], int(rest[1])
			if (typ != 1 && typ != 2) || n == 0 || len(rest) < 2+4*n {
				return []uint8{asPathErr, lenErr}
			}
			as := u32s(rest[2 : 2+4*n])
			if typ == 1 {
				v.Set = append(v.Set, as...)
			} else {
				v.Seq = append(v.Seq, as...)
			}
			rest = rest[2+4*n:]
		}
	case 3, 9:
		if len(b) != 4 {
			return []uint8{lenErr}
		}
		v.Addrs = [][]byte{b}
	case 4, 5:
		if len(b) != 4 {
			return []uint8{lenErr}
		}
		v.U32s = u32s(b)
	case 6:
		if len(b) != 0 {
			return []uint8{lenErr}
		}
	case 7:
		if len(b) != 8 {
			return []uint8{lenErr}
		}
		v.U32s = u32s(b[:4])
		v.Addrs = [][]byte{b[4:]}
	case 8:
		if len(b) == 0 || len(b)%4 != 0 {
			return []uint8{lenErr}
		}
		v.U32s = u32s(b)
	case 10:
		if len(b) == 0 || len(b)%4 != 0 {
			return []uint8{lenErr}
		}
		for i := 0; i < len(b); i += 4 {
			v.Addrs = append(v.Addrs, b[i:i+4])
		}
	case 32:
		if len(b) == 0 || len(b)%12 != 0 {
			return []uint8{lenErr}
		}
		v.U32s = u32s(b)
	}
	return nil
}

// DecodeAttr is the reference verdict for (rule, flags octet, value).
func DecodeAttr(rule AttrRule, flags uint8, b []byte) AttrVerdict {
	var v AttrVerdict
	flagsBad := (flags&0x80 != 0) != rule.Optional || (flags&0x40 != 0) != rule.Transitive
	vf := valueFault(rule.Code, b, &v)
	switch {
	case flagsBad:
		// treat-as-withdraw for any flag conflict; when the value is bad too
		// either subcode is acceptable (check order is not prescribed)
		out := AttrVerdict{Class: ClassWithdraw, Subcodes: []uint8{4}}
		out.Subcodes = append(out.Subcodes, vf...)
		return out
	case vf != nil:
		out := AttrVerdict{Class: ClassWithdraw, Subcodes: vf}
		if rule.Discard {
			out.Class = ClassDiscard
		}
		return out
	}
	v.OK = true
	return v
}
