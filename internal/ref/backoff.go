package ref

import "time"

// Backoff is the reference model of the hold-down that follows the last
// protocol error of a history (times of all non-Cease NOTIFICATIONs sent to or
// received from the peer, ascending): 60 s at first, doubled by every further
// protocol error up to 300 s, back to 60 s once 300 s have passed without one.
func Backoff(hist []time.Duration) time.Duration {
	const (
		minD    = 60 * time.Second
		maxD    = 300 * time.Second
		amnesia = 300 * time.Second
	)
	var d time.Duration
	for i := range hist {
		if i > 0 && hist[i]-hist[i-1] >= amnesia {
			d = 0
		}
		if d == 0 {
			d = minD
		} else if d = 2 * d; d > maxD {
			d = maxD
		}
	}
	return d
}
