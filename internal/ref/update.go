// Package ref holds the reference models (the trusted base of the oracles).
// Each is written from the property statements and the RFC text (4271, 4760,
// 5492, 6286, 6793, 7606, 7911, 8092), never from corebgp's source.
package ref

import "encoding/binary"

const (
	AttrOrigin      = 1
	AttrASPath      = 2
	AttrMPReach     = 14
	AttrMPUnreach   = 15
	ClassNone       = 0
	ClassOther      = 1 // some other UpdateError / foreign error
	ClassDiscard    = 2
	ClassWithdraw   = 3
	ClassNotif      = 4
	flagExtendedLen = 0x10
)

// AttrCall is one expected invocation of the path-attribute callback.
type AttrCall struct {
	Code  uint8
	Flags uint8
	Value []byte
}

// Partition is what RFC 4271 §4.3 / RFC 7606 §3-5 say an UPDATE body consists
// of, in terms of callback invocations of an UpdateDecoder whose callbacks all
// return nil.
type Partition struct {
	// Abort is non-empty when a length field overruns the message (or the body
	// is shorter than 4 bytes): no callback may run and the result is a
	// session-reset-class error.
	Abort string

	Withdrawn []byte
	Attrs     []AttrCall
	// Overrun: an attribute header or value overran the attribute block;
	// iteration ended there (treat-as-withdraw) but NLRI is still delivered.
	Overrun bool
	// MPDup: a second MP_REACH_NLRI / MP_UNREACH_NLRI aborted decoding
	// (session reset); NLRI is not delivered.
	MPDup bool
	NLRI  []byte
	// Missing lists the well-known mandatory attributes that are absent although
	// the UPDATE announces routes.
	Missing []uint8
}

// StructClass is the strongest RFC 7606 class among the structural faults.
func (p Partition) StructClass() int {
	switch {
	case p.Abort != "" || p.MPDup:
		return ClassNotif
	case p.Overrun || len(p.Missing) > 0:
		return ClassWithdraw
	}
	return ClassNone
}

// PartitionUpdate is the reference parser.
func PartitionUpdate(b []byte) Partition {
	var p Partition
	if len(b) < 4 {
		p.Abort = "body shorter than the two length fields"
		return p
	}
	wrl := int(binary.BigEndian.Uint16(b))
	if len(b) < 2+wrl+2 {
		p.Abort = "withdrawn routes length overruns the message"
		return p
	}
	pal := int(binary.BigEndian.Uint16(b[2+wrl:]))
	if len(b) < 2+wrl+2+pal {
		p.Abort = "total path attribute length overruns the message"
		return p
	}
	p.Withdrawn = b[2 : 2+wrl]
	attrs := b[4+wrl : 4+wrl+pal]
	p.NLRI = b[4+wrl+pal:]
	seen := map[uint8]bool{}
	for len(attrs) > 0 {
		if len(attrs) < 2 {
			p.Overrun = true
			break
		}
		flags, code := attrs[0], attrs[1]
		var alen, hdr int
		if flags&flagExtendedLen != 0 {
			if len(attrs) < 4 {
				p.Overrun = true
				break
			}
			alen, hdr = int(binary.BigEndian.Uint16(attrs[2:])), 4
		} else {
			if len(attrs) < 3 {
				p.Overrun = true
				break
			}
			alen, hdr = int(attrs[2]), 3
		}
		if len(attrs) < hdr+alen {
			p.Overrun = true
			break
		}
		val := attrs[hdr : hdr+alen]
		attrs = attrs[hdr+alen:]
		if seen[code] {
			if code == AttrMPReach || code == AttrMPUnreach {
				p.MPDup = true
				return p
			}
			continue
		}
		seen[code] = true
		p.Attrs = append(p.Attrs, AttrCall{Code: code, Flags: flags, Value: val})
	}
	if seen[AttrMPReach] || len(p.NLRI) > 0 {
		if !seen[AttrOrigin] {
			p.Missing = append(p.Missing, AttrOrigin)
		}
		if !seen[AttrASPath] {
			p.Missing = append(p.Missing, AttrASPath)
		}
	}
	return p
}
