package ref

import (
	"bytes"
	"encoding/binary"
	"fmt"

	"verif/internal/wire"
)

// OpenCfg is the part of the peer configuration the OPEN checks depend on.
type OpenCfg struct {
	LocalID  uint32
	LocalAS  uint32
	RemoteAS uint32
}

// Reply is one NOTIFICATION a correct implementation may answer with.
// Data == nil means the data field is not prescribed.
type Reply struct {
	Code, Sub uint8
	Data      []byte
	Fault     string
}

func (r Reply) String() string {
	if r.Data == nil {
		return fmt.Sprintf("(%d,%d,*) for %s", r.Code, r.Sub, r.Fault)
	}
	return fmt.Sprintf("(%d,%d,%x) for %s", r.Code, r.Sub, r.Data, r.Fault)
}

// OpenVerdict is the reference judgement of an OPEN body for a peer.
type OpenVerdict struct {
	Faults []Reply // empty <=> acceptable
	// for acceptable OPENs
	ID   uint32
	Hold uint16
	Caps []wire.Cap // all capabilities of all capability parameters, in order
}

func (v OpenVerdict) Accept() bool { return len(v.Faults) == 0 }

// Allows reports whether the NOTIFICATION (code, sub, data) applies to a fault
// present in the OPEN.
func (v OpenVerdict) Allows(code, sub uint8, data []byte) bool {
	for _, f := range v.Faults {
		if f.Code == code && f.Sub == sub && (f.Data == nil || bytes.Equal(f.Data, data)) {
			return true
		}
	}
	return false
}

// JudgeOpen implements DESIGN.md Appendix A.1.
func JudgeOpen(b []byte, cfg OpenCfg) OpenVerdict {
	var v OpenVerdict
	add := func(code, sub uint8, data []byte, fault string) {
		v.Faults = append(v.Faults, Reply{code, sub, data, fault})
	}
	anyData := []byte(nil)
	if len(b) < 10 {
		add(1, 2, anyData, "body shorter than the fixed fields")
		return v
	}
	version := b[0]
	as2 := binary.BigEndian.Uint16(b[1:])
	hold := binary.BigEndian.Uint16(b[3:])
	id := binary.BigEndian.Uint32(b[5:])
	v.ID, v.Hold = id, hold

	fourOctet := wire.FourOctetAS(cfg.RemoteAS).Bytes()
	scanDone := false
	var caps []wire.Cap
	if int(b[9]) != len(b)-10 {
		add(2, 0, anyData, "optional parameters length octet disagrees with the message")
	} else {
		rest := b[10:]
		if len(rest) == 0 {
			add(2, 0, anyData, "empty optional parameter list")
			add(2, 7, anyData, "empty optional parameter list (4-octet-AS capability missing)")
		}
		ok := true
		for len(rest) > 0 && ok {
			if len(rest) < 2 || len(rest) < 2+int(rest[1]) {
				add(2, 0, anyData, "optional parameter overruns the list")
				ok = false
				break
			}
			pt, pv := rest[0], rest[2:2+int(rest[1])]
			rest = rest[2+int(rest[1]):]
			if pt != 2 {
				add(2, 4, anyData, fmt.Sprintf("unknown optional parameter type %d", pt))
				continue
			}
			if len(pv) == 0 {
				add(2, 0, anyData, "empty capabilities parameter")
				continue
			}
			for len(pv) > 0 {
				if len(pv) < 2 || len(pv) < 2+int(pv[1]) {
					add(2, 0, anyData, "capability overruns its parameter")
					ok = false
					break
				}
				caps = append(caps, wire.Cap{Code: pv[0], Value: pv[2 : 2+int(pv[1])]})
				pv = pv[2+int(pv[1]):]
			}
		}
		scanDone = ok
	}

	if version != 4 {
		add(2, 1, []byte{0, 4}, "unsupported version")
	}
	if !(as2 == wire.ASTrans || uint32(as2) == cfg.RemoteAS) {
		add(2, 2, anyData, "2-octet AS is neither the remote AS nor AS_TRANS")
	}
	if hold == 1 || hold == 2 {
		add(2, 6, anyData, "hold time 1 or 2")
	}
	if id>>28 == 0xE {
		add(2, 3, anyData, "multicast BGP identifier")
	}
	if cfg.LocalAS == cfg.RemoteAS && id == cfg.LocalID {
		add(2, 3, anyData, "BGP identifier collides with the local one inside the same AS")
	}
	if scanDone {
		found := false
		for _, c := range caps {
			if c.Code != wire.CapFourOctetAS {
				continue
			}
			found = true
			if len(c.Value) != 4 {
				add(2, 0, anyData, "4-octet-AS capability of length != 4")
				add(2, 7, anyData, "4-octet-AS capability of length != 4")
			} else if binary.BigEndian.Uint32(c.Value) != cfg.RemoteAS {
				add(2, 2, anyData, "4-octet-AS capability differs from the remote AS")
			}
		}
		if !found && len(b) > 10 {
			add(2, 7, fourOctet, "4-octet-AS capability missing")
			if as2 == wire.ASTrans {
				add(2, 2, anyData, "AS_TRANS without a 4-octet-AS capability")
			}
		}
	}
	v.Caps = caps
	return v
}

// ExpectedOpen implements Appendix A.2: what corebgp's own OPEN must contain.
type ExpectedOpen struct {
	Representable bool
	AS2           uint16
	Hold          uint16
	ID            uint32
	Caps          []wire.Cap // flattened
}

func ExpectOpen(localAS uint32, holdSeconds uint16, routerID uint32, plugin []wire.Cap) ExpectedOpen {
	e := ExpectedOpen{Hold: holdSeconds, ID: routerID, Representable: true}
	if localAS > 65535 {
		e.AS2 = wire.ASTrans
	} else {
		e.AS2 = uint16(localAS)
	}
	e.Caps = []wire.Cap{wire.FourOctetAS(localAS)}
	total := 6
	for _, c := range plugin {
		if c.Code == wire.CapFourOctetAS {
			continue
		}
		e.Caps = append(e.Caps, c)
		total += 2 + len(c.Value)
		if len(c.Value) > 255 {
			e.Representable = false
		}
	}
	// one capabilities parameter (2-octet header) inside an optional parameters
	// field of at most 255 octets holds at most 253 octets of capabilities
	if total > 253 {
		e.Representable = false
	}
	return e
}

// CheckOpen compares a strictly parsed OPEN with the expectation; it returns
// "" when they agree.
func (e ExpectedOpen) CheckOpen(o *wire.Open) string {
	switch {
	case o.Version != 4:
		return fmt.Sprintf("version %d, want 4", o.Version)
	case o.AS != e.AS2:
		return fmt.Sprintf("2-octet AS field %d, want %d", o.AS, e.AS2)
	case o.Hold != e.Hold:
		return fmt.Sprintf("hold time %d, want %d seconds", o.Hold, e.Hold)
	case o.ID != e.ID:
		return fmt.Sprintf("BGP identifier %08x, want %08x", o.ID, e.ID)
	}
	for _, p := range o.Params {
		if p.Type != 2 {
			return fmt.Sprintf("optional parameter of type %d", p.Type)
		}
	}
	if got := o.AllCaps(); !wire.EqualCaps(got, e.Caps) {
		return fmt.Sprintf("capabilities %v, want %v", got, e.Caps)
	}
	return ""
}
