// Package memnet provides in-memory net.Conn / net.Listener implementations
// with TCP-like semantics that block only on sync.Cond, so that they are
// "durably blocking" inside a testing/synctest bubble and virtual time can
// advance while corebgp waits for I/O.
package memnet

import (
	"io"
	"net"
	"net/netip"
	"os"
	"runtime"
	"sync"
	"syscall"
	"time"
)

// Pair is one simulated TCP connection; end 0 is handed to corebgp, end 1 is
// driven by the scripted remote.
type Pair struct {
	mu   sync.Mutex
	cond *sync.Cond
	ID   int

	// dir[i] carries bytes written by end i towards end 1-i
	buf    [2][]byte
	fin    [2]bool // end i closed (its writes are finished, its reads fail locally)
	rst    bool    // connection reset: all pending data discarded
	closes [2]int  // number of Close calls per end
	wrote  [2]int  // bytes written per end
	writes [2]int  // Write calls per end
	reads  [2]int  // Read calls per end

	// fault injection for end 0 (corebgp side); 0 = off. The n-th call (1-based)
	// and all later ones fail.
	FailWriteAt int
	FailReadAt  int
	// MaxRead limits the bytes returned by one Read on end 0 (0 = unlimited).
	MaxRead int
	// WriteAfterPeerCloseOK makes writes to a peer that has closed succeed
	// silently (data discarded), as the first write on a real TCP socket does.
	WriteAfterPeerCloseOK bool

	addr [2]net.Addr  // local address of each end
	wdl  [2]time.Time // write deadline of each end

	// OnClose0, if set, is called (with the pair lock released) the first time
	// end 0 is closed.
	OnClose0 func()

	// WriteDelay0, if set, is called before every Write of end 0 takes effect;
	// the call blocks for the returned duration first (a send buffer that is
	// full for a while). One Write call still takes effect atomically, as on a
	// real socket whose fd write lock serialises concurrent Write calls.
	WriteDelay0 func() time.Duration
	// CloseDelay0 makes Close of end 0 take that long (virtual time) before it has
	// any effect, as a close that has to flush or wait for the kernel does. Set it
	// before the pair is used.
	CloseDelay0 time.Duration
	// CloseYields0 makes Close of end 0 yield the processor that many times before
	// it has any effect (no virtual time passes: usable when locks are contended).
	CloseYields0 int
	// EOFWithData0: a Read of end 0 that drains the last bytes after the peer has
	// closed returns them together with io.EOF.
	EOFWithData0 bool
	// WriteYields0 makes every Write of end 0 yield the processor that many times
	// before it takes effect: two writes that should have been one are pulled apart.
	WriteYields0 int

	// Tap0, if set, observes every successful Write of end 0 (corebgp's side)
	// at the moment the transport accepts it, under the pair lock: this is
	// "the wire". Data later discarded by a reset or by the peer's close is
	// still seen here.
	Tap0 func(b []byte)
}

// NewPair creates a connection whose corebgp end has local address a0 and
// whose remote end has local address a1.
func NewPair(id int, a0, a1 netip.AddrPort) *Pair {
	p := &Pair{ID: id}
	p.cond = sync.NewCond(&p.mu)
	p.addr[0] = net.TCPAddrFromAddrPort(a0)
	p.addr[1] = net.TCPAddrFromAddrPort(a1)
	return p
}

// SetWriteDelay0 installs or removes the write delay (safe while in use).
func (p *Pair) SetWriteDelay0(f func() time.Duration) {
	p.mu.Lock()
	p.WriteDelay0 = f
	p.mu.Unlock()
}

// End returns the net.Conn for one end.
func (p *Pair) End(i int) *Conn { return &Conn{p: p, i: i} }

// Closed reports how often end i was closed.
func (p *Pair) Closed(i int) int {
	p.mu.Lock()
	defer p.mu.Unlock()
	return p.closes[i]
}

// Ops reports the number of Read and Write calls made on end i.
func (p *Pair) Ops(i int) int {
	p.mu.Lock()
	defer p.mu.Unlock()
	return p.reads[i] + p.writes[i]
}

// Wrote reports bytes written by end i.
func (p *Pair) Wrote(i int) int {
	p.mu.Lock()
	defer p.mu.Unlock()
	return p.wrote[i]
}

// Writes reports the number of Write calls made on end i (including failed
// ones).
func (p *Pair) Writes(i int) int {
	p.mu.Lock()
	defer p.mu.Unlock()
	return p.writes[i]
}

// Unread reports bytes written by end i not yet read by the other end.
func (p *Pair) Unread(i int) int {
	p.mu.Lock()
	defer p.mu.Unlock()
	return len(p.buf[i])
}

// Conn is one end of a Pair.
type Conn struct {
	p *Pair
	i int
}

func (c *Conn) Pair() *Pair { return c.p }

func opErr(op string, err error) error {
	return &net.OpError{Op: op, Net: "tcp", Err: err}
}

func (c *Conn) Read(b []byte) (int, error) {
	p := c.p
	me, peer := c.i, 1-c.i
	p.mu.Lock()
	defer p.mu.Unlock()
	p.reads[me]++
	if me == 0 && p.FailReadAt > 0 && p.reads[0] >= p.FailReadAt {
		return 0, opErr("read", syscall.ETIMEDOUT)
	}
	for {
		if p.fin[me] {
			return 0, opErr("read", net.ErrClosed)
		}
		if p.rst {
			return 0, opErr("read", syscall.ECONNRESET)
		}
		if len(p.buf[peer]) > 0 {
			n := len(b)
			if n > len(p.buf[peer]) {
				n = len(p.buf[peer])
			}
			if me == 0 && p.MaxRead > 0 && n > p.MaxRead {
				n = p.MaxRead
			}
			copy(b, p.buf[peer][:n])
			p.buf[peer] = p.buf[peer][n:]
			if len(p.buf[peer]) == 0 {
				p.buf[peer] = nil
				if me == 0 && p.EOFWithData0 && p.fin[peer] {
					// io.Reader allows the last bytes and the end of the stream in one
					// call; TLS-like wrappers and pipes of other libraries do that
					return n, io.EOF
				}
			}
			return n, nil
		}
		if p.fin[peer] {
			return 0, io.EOF
		}
		if len(b) == 0 {
			return 0, nil
		}
		p.cond.Wait()
	}
}

func (c *Conn) Write(b []byte) (int, error) {
	p := c.p
	me, peer := c.i, 1-c.i
	if me == 0 {
		for k := 0; k < p.WriteYields0; k++ {
			runtime.Gosched()
		}
		p.mu.Lock()
		wd := p.WriteDelay0
		dl := p.wdl[0]
		p.mu.Unlock()
		if wd != nil {
			if d := wd(); d > 0 {
				if !dl.IsZero() && time.Now().Add(d).After(dl) {
					if w := time.Until(dl); w > 0 {
						time.Sleep(w)
					}
					return 0, opErr("write", os.ErrDeadlineExceeded)
				}
				time.Sleep(d)
			}
		}
	}
	p.mu.Lock()
	defer p.mu.Unlock()
	p.writes[me]++
	if me == 0 && p.FailWriteAt > 0 && p.writes[0] >= p.FailWriteAt {
		return 0, opErr("write", syscall.EPIPE)
	}
	if p.fin[me] {
		return 0, opErr("write", net.ErrClosed)
	}
	if p.rst {
		return 0, opErr("write", syscall.ECONNRESET)
	}
	if p.fin[peer] {
		if p.WriteAfterPeerCloseOK {
			p.wrote[me] += len(b)
			if me == 0 && p.Tap0 != nil {
				p.Tap0(b)
			}
			return len(b), nil
		}
		return 0, opErr("write", syscall.EPIPE)
	}
	p.buf[me] = append(p.buf[me], b...)
	p.wrote[me] += len(b)
	if me == 0 && p.Tap0 != nil {
		p.Tap0(b)
	}
	p.cond.Broadcast()
	return len(b), nil
}

// Close closes this end: the peer reads pending data, then EOF.
func (c *Conn) Close() error {
	p := c.p
	if c.i == 0 && p.CloseDelay0 > 0 {
		time.Sleep(p.CloseDelay0)
	}
	if c.i == 0 {
		for k := 0; k < p.CloseYields0; k++ {
			runtime.Gosched()
		}
	}
	p.mu.Lock()
	p.closes[c.i]++
	first := !p.fin[c.i]
	p.fin[c.i] = true
	// data the closing end never read is dropped
	p.buf[1-c.i] = nil
	p.cond.Broadcast()
	cb := p.OnClose0
	p.mu.Unlock()
	if !first {
		return opErr("close", net.ErrClosed)
	}
	if c.i == 0 && cb != nil {
		cb()
	}
	return nil
}

// Reset aborts the connection from this end (RST): buffered data in both
// directions is discarded and the peer's pending and future I/O fails with
// ECONNRESET.
func (c *Conn) Reset() {
	p := c.p
	p.mu.Lock()
	p.rst = true
	p.fin[c.i] = true
	p.closes[c.i]++
	p.buf[0], p.buf[1] = nil, nil
	p.cond.Broadcast()
	p.mu.Unlock()
}

// Configure changes the fault fields (FailWriteAt, FailReadAt, MaxRead,
// WriteAfterPeerCloseOK) of a pair that may already be in use.
func (p *Pair) Configure(f func(p *Pair)) {
	p.mu.Lock()
	f(p)
	p.mu.Unlock()
}

// SetAddr overrides the local address of end i (before the pair is used): lets
// a test present address forms a real listener can produce (IPv4-mapped, zoned,
// non-TCP).
func (p *Pair) SetAddr(i int, a net.Addr) { p.addr[i] = a }

func (c *Conn) LocalAddr() net.Addr  { return c.p.addr[c.i] }
func (c *Conn) RemoteAddr() net.Addr { return c.p.addr[1-c.i] }

// Write deadlines are honoured for simulated write delays (a write that would
// still be held up when its deadline passes fails then with a timeout); read
// deadlines are not implemented (corebgp sets none).
func (c *Conn) SetDeadline(t time.Time) error     { return c.SetWriteDeadline(t) }
func (c *Conn) SetReadDeadline(t time.Time) error { return nil }
func (c *Conn) SetWriteDeadline(t time.Time) error {
	c.p.mu.Lock()
	c.p.wdl[c.i] = t
	c.p.mu.Unlock()
	return nil
}

// Listener is an in-memory net.Listener.
type Listener struct {
	// CloseDelay makes Close take that long (virtual time) before it has any
	// effect. Set it before the listener is used.
	CloseDelay time.Duration
	mu         sync.Mutex
	cond       *sync.Cond
	addr       net.Addr
	queue      []*Conn
	closed     bool
	// acceptors parked in Accept
	parked int
	// gate: while held no connection is handed out
	gated bool
	// FailNext makes the next Accept return this error (once)
	failErr error
}

func NewListener(addr netip.AddrPort) *Listener {
	l := &Listener{addr: net.TCPAddrFromAddrPort(addr)}
	l.cond = sync.NewCond(&l.mu)
	return l
}

type listenerClosedErr struct{}

func (listenerClosedErr) Error() string   { return "memnet: listener closed" }
func (listenerClosedErr) Timeout() bool   { return false }
func (listenerClosedErr) Temporary() bool { return false }

func (l *Listener) Accept() (net.Conn, error) {
	l.mu.Lock()
	defer l.mu.Unlock()
	l.parked++
	l.cond.Broadcast()
	defer func() { l.parked-- }()
	for {
		if l.failErr != nil {
			err := l.failErr
			l.failErr = nil
			return nil, err
		}
		if l.closed {
			return nil, listenerClosedErr{}
		}
		if len(l.queue) > 0 && !l.gated {
			c := l.queue[0]
			l.queue = l.queue[1:]
			return c, nil
		}
		l.cond.Wait()
	}
}

func (l *Listener) Close() error {
	if l.CloseDelay > 0 {
		time.Sleep(l.CloseDelay)
	}
	l.mu.Lock()
	l.closed = true
	q := l.queue
	l.queue = nil
	l.cond.Broadcast()
	l.mu.Unlock()
	for _, c := range q {
		c.Close()
	}
	return nil
}

func (l *Listener) Addr() net.Addr { return l.addr }

// Inject queues the corebgp end of a new connection for Accept. It returns
// false (and closes the conn) when the listener is closed.
func (l *Listener) Inject(c *Conn) bool {
	l.mu.Lock()
	if l.closed {
		l.mu.Unlock()
		c.Close()
		return false
	}
	l.queue = append(l.queue, c)
	l.cond.Broadcast()
	l.mu.Unlock()
	return true
}

// Fail makes a pending or the next Accept return err.
func (l *Listener) Fail(err error) {
	l.mu.Lock()
	l.failErr = err
	l.cond.Broadcast()
	l.mu.Unlock()
}

// Gate blocks (durably) until an acceptor is parked in Accept with nothing
// in flight, then stops the listener from handing out connections until
// Ungate. It returns false if the listener is closed or never served.
func (l *Listener) Gate() bool {
	l.mu.Lock()
	defer l.mu.Unlock()
	for !(l.parked > 0 && (len(l.queue) == 0 || l.gated)) {
		if l.closed {
			return false
		}
		l.cond.Wait()
	}
	l.gated = true
	return true
}

func (l *Listener) Ungate() {
	l.mu.Lock()
	l.gated = false
	l.cond.Broadcast()
	l.mu.Unlock()
}

// Parked reports whether an acceptor is waiting in Accept.
func (l *Listener) Parked() bool {
	l.mu.Lock()
	defer l.mu.Unlock()
	return l.parked > 0
}
