// Package wire is an independent BGP-4 message builder and strict parser. It
// is written from RFC 4271 §4 / RFC 5492 and shares no code with corebgp; the
// harness uses it to build everything it sends and to judge every byte
// corebgp puts on a connection.
package wire

import (
	"bytes"
	"encoding/binary"
	"fmt"
)

const (
	TypeOpen         = 1
	TypeUpdate       = 2
	TypeNotification = 3
	TypeKeepalive    = 4

	HeaderLen = 19
	MaxLen    = 4096
	MaxBody   = MaxLen - HeaderLen // 4077

	ASTrans        = 23456
	CapFourOctetAS = 65
)

// RawHeader builds a 19-byte header with arbitrary marker/length/type.
func RawHeader(marker []byte, length uint16, typ uint8) []byte {
	h := make([]byte, HeaderLen)
	if marker == nil {
		for i := 0; i < 16; i++ {
			h[i] = 0xFF
		}
	} else {
		copy(h, marker)
	}
	binary.BigEndian.PutUint16(h[16:], length)
	h[18] = typ
	return h
}

// Msg builds a correctly framed message of the given type.
func Msg(typ uint8, body []byte) []byte {
	h := RawHeader(nil, uint16(HeaderLen+len(body)), typ)
	return append(h, body...)
}

func Keepalive() []byte { return Msg(TypeKeepalive, nil) }

func Update(body []byte) []byte { return Msg(TypeUpdate, body) }

func NotificationBody(code, sub uint8, data []byte) []byte {
	b := []byte{code, sub}
	return append(b, data...)
}

func Notification(code, sub uint8, data []byte) []byte {
	return Msg(TypeNotification, NotificationBody(code, sub, data))
}

// Cap is one RFC 5492 capability TLV.
type Cap struct {
	Code  uint8
	Value []byte
}

func (c Cap) Bytes() []byte {
	b := []byte{c.Code, uint8(len(c.Value))}
	return append(b, c.Value...)
}

func (c Cap) String() string { return fmt.Sprintf("%d:%x", c.Code, c.Value) }

func FourOctetAS(as uint32) Cap {
	v := make([]byte, 4)
	binary.BigEndian.PutUint32(v, as)
	return Cap{Code: CapFourOctetAS, Value: v}
}

// Param is one OPEN optional parameter. For Type 2 (capabilities) Caps holds
// the parsed capabilities; Raw always holds the parameter value bytes.
type Param struct {
	Type uint8
	Raw  []byte
	Caps []Cap
}

// CapParam builds a capabilities optional parameter.
func CapParam(caps ...Cap) Param {
	var raw []byte
	for _, c := range caps {
		raw = append(raw, c.Bytes()...)
	}
	return Param{Type: 2, Raw: raw, Caps: caps}
}

func (p Param) Bytes() []byte {
	b := []byte{p.Type, uint8(len(p.Raw))}
	return append(b, p.Raw...)
}

// Open is the content of an OPEN message.
type Open struct {
	Version uint8
	AS      uint16
	Hold    uint16
	ID      uint32
	Params  []Param
}

// AllCaps flattens the capabilities of all capability parameters in order.
func (o *Open) AllCaps() []Cap {
	var out []Cap
	for _, p := range o.Params {
		if p.Type == 2 {
			out = append(out, p.Caps...)
		}
	}
	return out
}

// ParamBytes is the concatenated optional parameters.
func (o *Open) ParamBytes() []byte {
	var b []byte
	for _, p := range o.Params {
		b = append(b, p.Bytes()...)
	}
	return b
}

// Body builds a consistent OPEN body (optional parameter length = real length
// modulo 256; callers that need >255 bytes build raw bodies themselves).
func (o *Open) Body() []byte {
	return OpenBodyRaw(o.Version, o.AS, o.Hold, o.ID, -1, o.ParamBytes())
}

// OpenBodyRaw builds an OPEN body with an explicit optional-parameter length
// octet (optLen < 0: use len(params)).
func OpenBodyRaw(version uint8, as, hold uint16, id uint32, optLen int, params []byte) []byte {
	b := make([]byte, 10, 10+len(params))
	b[0] = version
	binary.BigEndian.PutUint16(b[1:], as)
	binary.BigEndian.PutUint16(b[3:], hold)
	binary.BigEndian.PutUint32(b[5:], id)
	if optLen < 0 {
		optLen = len(params)
	}
	b[9] = uint8(optLen)
	return append(b, params...)
}

// StdOpen is the usual well-formed OPEN of a 4-octet-AS speaker.
func StdOpen(as uint32, hold uint16, id uint32, extra ...Cap) *Open {
	as2 := uint16(ASTrans)
	if as <= 65535 {
		as2 = uint16(as)
	}
	caps := append([]Cap{FourOctetAS(as)}, extra...)
	return &Open{Version: 4, AS: as2, Hold: hold, ID: id, Params: []Param{CapParam(caps...)}}
}

// ParseOpenStrict parses an OPEN body demanding that every length octet agrees
// with the bytes that follow (RFC 4271 §4.2, RFC 5492 §4).
func ParseOpenStrict(body []byte) (*Open, error) {
	if len(body) < 10 {
		return nil, fmt.Errorf("open body %d bytes < 10", len(body))
	}
	o := &Open{
		Version: body[0],
		AS:      binary.BigEndian.Uint16(body[1:]),
		Hold:    binary.BigEndian.Uint16(body[3:]),
		ID:      binary.BigEndian.Uint32(body[5:]),
	}
	if int(body[9]) != len(body)-10 {
		return nil, fmt.Errorf("opt param len octet %d != %d bytes present", body[9], len(body)-10)
	}
	rest := body[10:]
	for len(rest) > 0 {
		if len(rest) < 2 {
			return nil, fmt.Errorf("truncated optional parameter header")
		}
		pt, pl := rest[0], int(rest[1])
		if len(rest) < 2+pl {
			return nil, fmt.Errorf("optional parameter type %d length %d overruns (%d left)", pt, pl, len(rest)-2)
		}
		p := Param{Type: pt, Raw: append([]byte{}, rest[2:2+pl]...)}
		rest = rest[2+pl:]
		if pt == 2 {
			cr := p.Raw
			if len(cr) == 0 {
				return nil, fmt.Errorf("empty capabilities parameter")
			}
			for len(cr) > 0 {
				if len(cr) < 2 {
					return nil, fmt.Errorf("truncated capability header")
				}
				cl := int(cr[1])
				if len(cr) < 2+cl {
					return nil, fmt.Errorf("capability %d length %d overruns (%d left)", cr[0], cl, len(cr)-2)
				}
				p.Caps = append(p.Caps, Cap{Code: cr[0], Value: append([]byte{}, cr[2:2+cl]...)})
				cr = cr[2+cl:]
			}
		}
		o.Params = append(o.Params, p)
	}
	return o, nil
}

// Notif is a parsed NOTIFICATION.
type Notif struct {
	Code, Sub uint8
	Data      []byte
}

func (n *Notif) String() string {
	if n == nil {
		return "<nil>"
	}
	return fmt.Sprintf("(%d,%d,%x)", n.Code, n.Sub, n.Data)
}

func ParseNotifStrict(body []byte) (*Notif, error) {
	if len(body) < 2 {
		return nil, fmt.Errorf("notification body %d bytes < 2", len(body))
	}
	return &Notif{Code: body[0], Sub: body[1], Data: append([]byte{}, body[2:]...)}, nil
}

// Message is one complete message accepted by the strict stream parser.
type Message struct {
	Type  uint8
	Body  []byte
	Open  *Open
	Notif *Notif
}

func (m Message) String() string {
	switch m.Type {
	case TypeOpen:
		return fmt.Sprintf("OPEN(v%d as%d hold%d id%08x caps%v)", m.Open.Version, m.Open.AS, m.Open.Hold, m.Open.ID, m.Open.AllCaps())
	case TypeUpdate:
		if len(m.Body) > 12 {
			return fmt.Sprintf("UPDATE(%d bytes %x..)", len(m.Body), m.Body[:12])
		}
		return fmt.Sprintf("UPDATE(%x)", m.Body)
	case TypeNotification:
		return "NOTIFICATION" + m.Notif.String()
	case TypeKeepalive:
		return "KEEPALIVE"
	}
	return fmt.Sprintf("TYPE%d", m.Type)
}

// Parser is a strict incremental parser for the byte stream of one direction
// of a BGP connection. The first framing or syntax fault is sticky.
type Parser struct {
	buf   []byte
	Err   error
	Total int // bytes fed
}

// Feed consumes bytes and returns the complete messages they finish.
func (p *Parser) Feed(b []byte) []Message {
	p.Total += len(b)
	if p.Err != nil {
		return nil
	}
	p.buf = append(p.buf, b...)
	var out []Message
	for {
		// judge the header as early as its bytes arrive
		n := len(p.buf)
		for i := 0; i < n && i < 16; i++ {
			if p.buf[i] != 0xFF {
				p.Err = fmt.Errorf("marker octet %d is %#x", i, p.buf[i])
				return out
			}
		}
		if n < HeaderLen {
			return out
		}
		l := int(binary.BigEndian.Uint16(p.buf[16:18]))
		t := p.buf[18]
		if l < HeaderLen || l > MaxLen {
			p.Err = fmt.Errorf("length field %d outside 19..4096", l)
			return out
		}
		if t < 1 || t > 4 {
			p.Err = fmt.Errorf("unknown message type %d", t)
			return out
		}
		if n < l {
			return out
		}
		m := Message{Type: t, Body: append([]byte{}, p.buf[HeaderLen:l]...)}
		p.buf = p.buf[l:]
		switch t {
		case TypeOpen:
			o, err := ParseOpenStrict(m.Body)
			if err != nil {
				p.Err = fmt.Errorf("malformed OPEN: %v", err)
				return out
			}
			m.Open = o
		case TypeNotification:
			nt, err := ParseNotifStrict(m.Body)
			if err != nil {
				p.Err = fmt.Errorf("malformed NOTIFICATION: %v", err)
				return out
			}
			m.Notif = nt
		case TypeKeepalive:
			if len(m.Body) != 0 {
				p.Err = fmt.Errorf("KEEPALIVE with %d body bytes", len(m.Body))
				return out
			}
		}
		out = append(out, m)
	}
}

// Pending is the number of bytes of an unfinished message.
func (p *Parser) Pending() int { return len(p.buf) }

// EqualCaps compares capability lists byte-exactly (nil value == empty value).
func EqualCaps(a, b []Cap) bool {
	if len(a) != len(b) {
		return false
	}
	for i := range a {
		if a[i].Code != b[i].Code || !bytes.Equal(a[i].Value, b[i].Value) {
			return false
		}
	}
	return true
}
