#!/bin/bash
# dev-time: run every check at the given tier and seeds; prints one line per run
# usage: ./sweep.sh <tier> <seed> [<seed>...]
tier=$1; shift
for seed in "$@"; do
  for c in C01 C02 C03 C04 C05 C06 C07 C08 C09 C10 C11 C12 C13 C14 C15 C16 C17 C18 C19 C20; do
    out=$(VERIF_SEED=$seed ./check $c --tier $tier --seed $seed 2>&1); rc=$?
    echo "seed=$seed rc=$rc $(echo "$out" | tail -1 | cut -c1-220)"
    if [ $rc -ne 0 ]; then echo "$out" | grep -A3 -E "VIOLATION|INFRA|HARNESS|INCONCL" | head -20 | cut -c1-400; fi
  done
done
