package codec

import (
	"bytes"
	"errors"
	"fmt"
	"math/rand/v2"
	"testing"

	"github.com/jwhited/corebgp"

	"verif/internal/gen"
	"verif/internal/ref"
	"verif/internal/rt"
)

// ---------------------------------------------------------------- C16

type call struct {
	Kind  string // wd | attr | nlri
	Code  uint8
	Flags uint8
	Data  []byte
}

func (c call) String() string {
	if c.Kind == "attr" {
		return fmt.Sprintf("attr(code=%d flags=%#x value=%s)", c.Code, c.Flags, hx(c.Data))
	}
	return fmt.Sprintf("%s(%s)", c.Kind, hx(c.Data))
}

type recorder struct {
	calls []call
	// plan: error to return at the i-th callback (nil entries = return nil)
	plan func(i int, c call) error
	rets []error
}

func newDecoder() *corebgp.UpdateDecoder[*recorder] {
	return corebgp.NewUpdateDecoder[*recorder](
		func(r *recorder, b []byte) error {
			return r.on(call{Kind: "wd", Data: append([]byte{}, b...)})
		},
		func(r *recorder, code uint8, flags corebgp.PathAttrFlags, b []byte) error {
			return r.on(call{Kind: "attr", Code: code, Flags: uint8(flags), Data: append([]byte{}, b...)})
		},
		func(r *recorder, b []byte) error {
			return r.on(call{Kind: "nlri", Data: append([]byte{}, b...)})
		},
	)
}

func (r *recorder) on(c call) error {
	i := len(r.calls)
	r.calls = append(r.calls, c)
	var err error
	if r.plan != nil {
		err = r.plan(i, c)
	}
	r.rets = append(r.rets, err)
	return err
}

// expectedCalls lists the callbacks the reference partition prescribes when
// every callback returns nil.
func expectedCalls(p ref.Partition) []call {
	if p.Abort != "" {
		return nil
	}
	out := []call{{Kind: "wd", Data: p.Withdrawn}}
	for _, a := range p.Attrs {
		out = append(out, call{Kind: "attr", Code: a.Code, Flags: a.Flags, Data: a.Value})
	}
	if !p.MPDup {
		out = append(out, call{Kind: "nlri", Data: p.NLRI})
	}
	return out
}

func sameCall(a, b call) bool {
	return a.Kind == b.Kind && a.Code == b.Code && a.Flags == b.Flags && bytes.Equal(a.Data, b.Data)
}

func renderCalls(cs []call) []string {
	var out []string
	for _, c := range cs {
		out = append(out, c.String())
	}
	return out
}

func partitionSig(p ref.Partition, n int) string {
	return rt.Hash(p.Abort, len(p.Attrs) > 0, p.Overrun, p.MPDup, len(p.Missing), len(p.NLRI) > 0, len(p.Withdrawn) > 0, lenClass(n), min(len(p.Attrs), 6))
}

func checkC16(b *B, dec *corebgp.UpdateDecoder[*recorder], in []byte) {
	b.evals++
	p := ref.PartitionUpdate(in)
	want := expectedCalls(p)
	rec := &recorder{}
	b.Guard(func() any { return hx(in) }, func() {
		err := dec.Decode(rec, in)
		ok := len(rec.calls) == len(want)
		if ok {
			for i := range want {
				if !sameCall(rec.calls[i], want[i]) {
					ok = false
				}
			}
		}
		if !ok {
			b.Violate("", fmt.Sprintf("UpdateDecoder.Decode callback arguments differ from the RFC 4271 §4.3 / RFC 7606 partition (reference abort=%q overrun=%v mpdup=%v)", p.Abort, p.Overrun, p.MPDup),
				map[string]any{"input": hx(in), "observed": renderCalls(rec.calls), "expected": renderCalls(want), "returned": fmt.Sprint(err)})
		}
		if p.Abort != "" && err == nil {
			b.Violate("", "length field overruns the message but Decode returned nil", map[string]any{"input": hx(in), "reason": p.Abort})
		}
	})
	b.Sig(partitionSig(p, len(in)))
}

func TestC16(t *testing.T) {
	c := rt.Get()
	dec := newDecoder()
	// exhaustive small strings over the protocol alphabet
	maxLen := c.N(5, 6)
	total := gen.AlphaCount(maxLen)
	const chunk = 20000
	for bi := 0; bi*chunk < total; bi++ {
		batch("alpha", bi, map[string]any{"from": bi * chunk, "alphabet": hx(gen.Alphabet), "max_len": maxLen}, func(b *B) {
			for i := bi * chunk; i < (bi+1)*chunk && i < total; i++ {
				in := gen.AlphaString(i)
				checkC16(b, dec, in)
				if b.sample == nil && len(in) == maxLen {
					b.sample = hx(in)
				}
			}
		})
	}
	c.Info("alpha", map[string]any{"exhaustive_strings": total, "max_len": maxLen})
	// grammar-generated, mutated, random and oversized bodies
	nb := c.N(800, 12000)
	for bi := 0; bi < nb; bi++ {
		batch("mixed", bi, map[string]any{"batch": bi, "inputs": 2500}, func(b *B) {
			r := c.Rand("c16mixed", bi)
			for i := 0; i < 2500; i++ {
				in := gen.UpdateInput(r)
				checkC16(b, dec, in)
				if b.sample == nil && len(in) > 20 && len(in) < 80 {
					b.sample = hx(in)
				}
			}
		})
	}
	// every truncation point and every +-1 length tweak of grammar bodies
	nt := c.N(300, 4000)
	for bi := 0; bi < nt; bi++ {
		batch("trunc", bi, map[string]any{"batch": bi}, func(b *B) {
			r := c.Rand("c16trunc", bi)
			for k := 0; k < 20; k++ {
				base := gen.GrammarUpdate(r, 6)
				if len(base) > 400 {
					continue
				}
				for cut := 0; cut <= len(base); cut++ {
					checkC16(b, dec, base[:cut])
				}
				for pos := 0; pos < len(base); pos++ {
					for _, d := range []byte{1, 0xff} {
						m := append([]byte{}, base...)
						m[pos] += d
						checkC16(b, dec, m)
					}
				}
			}
		})
	}
}

// ---------------------------------------------------------------- C17

type otherUE struct{ n *corebgp.Notification }

func (o *otherUE) Error() string                         { return "other update error" }
func (o *otherUE) AsSessionReset() *corebgp.Notification { return o.n }

// wrapUE is a plugin-defined UpdateError that wraps another error.
type wrapUE struct {
	n     *corebgp.Notification
	inner error
}

func (o *wrapUE) Error() string                         { return "wrapping update error: " + o.inner.Error() }
func (o *wrapUE) AsSessionReset() *corebgp.Notification { return o.n }
func (o *wrapUE) Unwrap() error                         { return o.inner }

type foreignErr struct{ id int }

func (f *foreignErr) Error() string { return fmt.Sprintf("foreign#%d", f.id) }

// mkErr builds a callback error of one of the behaviour kinds; tag makes the
// embedded notification unique so that the chosen one can be identified.
func mkErr(kind int, tag int) error {
	n := &corebgp.Notification{Code: 3, Subcode: uint8(tag), Data: []byte{byte(tag >> 8), byte(tag)}}
	switch kind {
	case 1:
		return &corebgp.AttrDiscardUpdateErr{Code: uint8(tag), Notification: n}
	case 2:
		return &corebgp.TreatAsWithdrawUpdateErr{Code: uint8(tag), Notification: n}
	case 3:
		return n
	case 4:
		return &foreignErr{tag}
	case 5:
		return errors.Join(&corebgp.AttrDiscardUpdateErr{Code: uint8(tag), Notification: n}, &foreignErr{tag})
	case 6:
		return fmt.Errorf("wrapped: %w", &corebgp.TreatAsWithdrawUpdateErr{Code: uint8(tag), Notification: n})
	case 7:
		return fmt.Errorf("wrapped: %w", n)
	case 8:
		return &otherUE{n}
	case 9:
		return &corebgp.TreatAsWithdrawUpdateErr{Code: uint8(tag)} // nil fallback notification
	case 10:
		return errors.Join(&foreignErr{tag}, n)
	case 11:
		return &wrapUE{n: &corebgp.Notification{Code: 3, Subcode: 200}, inner: n} // plugin UpdateError wrapping a *Notification
	case 12:
		return &wrapUE{n: &corebgp.Notification{Code: 3, Subcode: 201}, inner: &corebgp.TreatAsWithdrawUpdateErr{Code: uint8(tag), Notification: n}}
	}
	return nil
}

// classify is the reference severity of an error tree.
func classify(err error) int {
	best := ref.ClassNone
	walk(err, func(e error) bool {
		c := ref.ClassOther
		switch e.(type) {
		case *corebgp.Notification:
			c = ref.ClassNotif
		case *corebgp.TreatAsWithdrawUpdateErr:
			c = ref.ClassWithdraw
		case *corebgp.AttrDiscardUpdateErr:
			c = ref.ClassDiscard
		}
		if c > best {
			best = c
		}
		return true
	})
	return best
}

// walk visits the error tree in pre-order (node, then children in Unwrap order).
func walk(err error, f func(error) bool) bool {
	if err == nil {
		return true
	}
	if !f(err) {
		return false
	}
	switch x := err.(type) {
	case interface{ Unwrap() error }:
		return walk(x.Unwrap(), f)
	case interface{ Unwrap() []error }:
		for _, e := range x.Unwrap() {
			if !walk(e, f) {
				return false
			}
		}
	}
	return true
}

func contains(tree, target error) bool {
	found := false
	walk(tree, func(e error) bool {
		if e == target {
			found = true
			return false
		}
		return true
	})
	return found
}

var classNames = []string{"none", "other", "attribute-discard", "treat-as-withdraw", "session-reset(*Notification)"}

func checkC17(b *B, dec *corebgp.UpdateDecoder[*recorder], in []byte, r *rand.Rand) {
	b.evals++
	p := ref.PartitionUpdate(in)
	want := expectedCalls(p)
	// behaviour plan: which callbacks fail and how
	plan := map[int]int{}
	if len(want) > 0 {
		switch r.IntN(4) {
		case 0: // all nil
		case 1:
			plan[r.IntN(len(want))] = 1 + r.IntN(12)
		default:
			for k := r.IntN(4); k >= 0; k-- {
				plan[r.IntN(len(want))] = 1 + r.IntN(12)
			}
		}
	}
	rec := &recorder{plan: func(i int, c call) error { return mkErr(plan[i], i+1) }}
	b.Guard(func() any { return map[string]any{"input": hx(in), "plan": fmt.Sprint(plan)} }, func() {
		err := dec.Decode(rec, in)
		// reference run: which callbacks run, what is the strongest class
		wantClass := ref.ClassNone
		stopped := false
		var wantCalls int
		if p.Abort != "" {
			wantClass = ref.ClassNotif
		} else {
			for i := range want {
				wantCalls++
				if k := plan[i]; k != 0 {
					if c := classify(mkErr(k, i+1)); c > wantClass {
						wantClass = c
					}
					if wantClass == ref.ClassNotif {
						stopped = true
						break
					}
				}
			}
			if !stopped {
				if c := p.StructClass(); c > wantClass {
					wantClass = c
				}
			}
		}
		wit := func() map[string]any {
			return map[string]any{"input": hx(in), "callback_plan(index->kind)": fmt.Sprint(plan), "observed_calls": renderCalls(rec.calls),
				"returned": fmt.Sprint(err), "reference": fmt.Sprintf("abort=%q overrun=%v mpdup=%v missing=%v", p.Abort, p.Overrun, p.MPDup, p.Missing)}
		}
		if (err == nil) != (wantClass == ref.ClassNone) {
			b.Violate("", fmt.Sprintf("Decode returned %v but the reference classifies the UPDATE as %s", err, classNames[wantClass]), wit())
			return
		}
		if len(rec.calls) != wantCalls && p.Abort == "" {
			b.Violate("", fmt.Sprintf("%d callbacks ran, reference expects %d (callbacks must stop after a session-reset-class error)", len(rec.calls), wantCalls), wit())
		}
		if p.Abort != "" && len(rec.calls) != 0 {
			b.Violate("", "callbacks ran although a length field overruns the message", wit())
		}
		if got := classify(err); got != wantClass {
			b.Violate("", fmt.Sprintf("strongest class in returned error tree is %s, RFC 7606 prescribes %s", classNames[got], classNames[wantClass]), wit())
		}
		for i, e := range rec.rets {
			if e != nil && !contains(err, e) {
				b.Violate("", fmt.Sprintf("error returned by callback %d is missing from the returned error tree", i), wit())
			}
		}
		// structural notifications are UPDATE Message Errors; the missing
		// mandatory attribute carries (3,3,[code]) as fallback
		if p.Abort != "" || (p.MPDup && !stopped) {
			var n *corebgp.Notification
			if !errors.As(err, &n) || n.Code != 3 {
				b.Violate("", "structural session-reset error is not an UPDATE Message Error notification", wit())
			}
		}
		if !stopped && p.Abort == "" && !p.MPDup {
			found := false
			walk(err, func(e error) bool {
				if taw, ok := e.(*corebgp.TreatAsWithdrawUpdateErr); ok && taw.Notification != nil && taw.Notification.Subcode == 3 && taw.Notification.Code == 3 &&
					len(taw.Notification.Data) == 1 {
					for _, m := range p.Missing {
						if taw.Notification.Data[0] == m {
							found = true
						}
					}
					// a (3,3) produced when nothing is missing is wrong unless it is one of ours (tag 3)
					if len(p.Missing) == 0 && !isPlanned(rec.rets, taw) {
						found = true
						b.Violate("", "Missing Well-known Attribute reported although ORIGIN and AS_PATH are present or no route is announced", wit())
					}
				}
				return true
			})
			if len(p.Missing) > 0 && !found {
				b.Violate("", fmt.Sprintf("routes announced without mandatory attribute(s) %v but no treat-as-withdraw error with fallback NOTIFICATION (3,3,[code]) in the tree", p.Missing), wit())
			}
		}
		// UpdateNotificationFromErr on the real result
		checkFromErr(b, err, wit)
	})
	b.Sig(partitionSig(p, len(in)), len(plan), fmt.Sprint(plan) == "map[]")
}

func isPlanned(rets []error, target error) bool {
	for _, e := range rets {
		if e != nil && contains(e, target) {
			return true
		}
	}
	return false
}

// refFromErr is the reference tree walk of UpdateNotificationFromErr.
func refFromErr(err error) *corebgp.Notification {
	if err == nil {
		return nil
	}
	var n, taw, ad, ue *corebgp.Notification
	generic := &corebgp.Notification{Code: 3}
	asr := func(u corebgp.UpdateError) *corebgp.Notification {
		if x := u.AsSessionReset(); x != nil {
			return x
		}
		return generic
	}
	walk(err, func(e error) bool {
		switch x := e.(type) {
		case *corebgp.Notification:
			if n == nil {
				n = x
			}
			return false // first *Notification wins outright
		case *corebgp.TreatAsWithdrawUpdateErr:
			if taw == nil {
				taw = asr(x)
			}
		case *corebgp.AttrDiscardUpdateErr:
			if ad == nil {
				ad = asr(x)
			}
		case corebgp.UpdateError:
			if ue == nil {
				ue = asr(x)
			}
		}
		return true
	})
	for _, c := range []*corebgp.Notification{n, taw, ad, ue} {
		if c != nil {
			return c
		}
	}
	return generic
}

func sameNotif(a, b *corebgp.Notification) bool {
	if a == nil || b == nil {
		return a == b
	}
	return a.Code == b.Code && a.Subcode == b.Subcode && bytes.Equal(a.Data, b.Data)
}

func checkFromErr(b *B, err error, wit func() map[string]any) {
	got := corebgp.UpdateNotificationFromErr(err)
	want := refFromErr(err)
	if !sameNotif(got, want) {
		w := wit()
		w["tree"] = renderTree(err)
		b.Violate("", fmt.Sprintf("UpdateNotificationFromErr returned %v, reference walk (severity, earliest first) gives %v", fmtN(got), fmtN(want)), w)
	}
}

func fmtN(n *corebgp.Notification) string {
	if n == nil {
		return "<nil>"
	}
	return fmt.Sprintf("(%d,%d,%x)", n.Code, n.Subcode, n.Data)
}

func renderTree(err error) string {
	if err == nil {
		return "nil"
	}
	switch x := err.(type) {
	case *corebgp.Notification:
		return "N" + fmtN(x)
	case *corebgp.TreatAsWithdrawUpdateErr:
		return "W" + fmtN(x.Notification)
	case *corebgp.AttrDiscardUpdateErr:
		return "D" + fmtN(x.Notification)
	case *otherUE:
		return "U" + fmtN(x.n)
	case *wrapUE:
		return "UW" + fmtN(x.n) + "(" + renderTree(x.inner) + ")"
	case *foreignErr:
		return "F"
	case interface{ Unwrap() error }:
		return "wrap(" + renderTree(x.Unwrap()) + ")"
	case interface{ Unwrap() []error }:
		s := "join("
		for i, e := range x.Unwrap() {
			if i > 0 {
				s += ","
			}
			s += renderTree(e)
		}
		return s + ")"
	}
	return fmt.Sprintf("%T", err)
}

// ---- exhaustive enumeration of small error trees

type treeGen struct{ leaf int }

func (g *treeGen) mkLeaf(kind int) error {
	g.leaf++
	n := &corebgp.Notification{Code: 3, Subcode: uint8(g.leaf), Data: []byte{byte(kind)}}
	switch kind {
	case 0:
		return n
	case 1:
		return &corebgp.TreatAsWithdrawUpdateErr{Code: uint8(g.leaf), Notification: n}
	case 2:
		return &corebgp.AttrDiscardUpdateErr{Code: uint8(g.leaf), Notification: n}
	case 3:
		return &otherUE{n}
	case 4:
		return &foreignErr{g.leaf}
	default:
		return &corebgp.AttrDiscardUpdateErr{Code: uint8(g.leaf)} // nil fallback
	}
}

const leafKinds = 6

// countTrees returns the number of tree shapes with exactly n nodes.
func countTrees(n int, memo map[int]int) int {
	if n == 1 {
		return leafKinds
	}
	if v, ok := memo[n]; ok {
		return v
	}
	total := 2 * countTrees(n-1, memo) // %w wrap, and a plugin-defined UpdateError that wraps
	for a := 1; a <= n-2; a++ {
		total += countTrees(a, memo) * countTrees(n-1-a, memo) // join of 2
	}
	for a := 1; a <= n-3; a++ {
		for c := 1; a+c <= n-2; c++ {
			total += countTrees(a, memo) * countTrees(c, memo) * countTrees(n-1-a-c, memo) // join of 3
		}
	}
	memo[n] = total
	return total
}

// buildTree builds the idx-th tree with n nodes.
func (g *treeGen) buildTree(n, idx int, memo map[int]int) error {
	if n == 1 {
		return g.mkLeaf(idx)
	}
	w := countTrees(n-1, memo)
	if idx < w {
		return fmt.Errorf("w: %w", g.buildTree(n-1, idx, memo))
	}
	idx -= w
	if idx < w {
		g.leaf++
		return &wrapUE{n: &corebgp.Notification{Code: 3, Subcode: uint8(g.leaf), Data: []byte{0x77}}, inner: g.buildTree(n-1, idx, memo)}
	}
	idx -= w
	for a := 1; a <= n-2; a++ {
		ca, cb := countTrees(a, memo), countTrees(n-1-a, memo)
		if idx < ca*cb {
			return errors.Join(g.buildTree(a, idx/cb, memo), g.buildTree(n-1-a, idx%cb, memo))
		}
		idx -= ca * cb
	}
	for a := 1; a <= n-3; a++ {
		for c := 1; a+c <= n-2; c++ {
			ca, cc, cd := countTrees(a, memo), countTrees(c, memo), countTrees(n-1-a-c, memo)
			if idx < ca*cc*cd {
				return errors.Join(g.buildTree(a, idx/(cc*cd), memo), g.buildTree(c, (idx/cd)%cc, memo), g.buildTree(n-1-a-c, idx%cd, memo))
			}
			idx -= ca * cc * cd
		}
	}
	panic("tree index out of range")
}

func TestC17(t *testing.T) {
	c := rt.Get()
	dec := newDecoder()
	nb := c.N(800, 10000)
	for bi := 0; bi < nb; bi++ {
		batch("decode", bi, map[string]any{"batch": bi, "inputs": 2000}, func(b *B) {
			r := c.Rand("c17decode", bi)
			for i := 0; i < 2000; i++ {
				in := gen.UpdateInput(r)
				if len(in) > 70000 && i%4 != 0 {
					in = gen.GrammarUpdate(r, 10)
				}
				checkC17(b, dec, in, r)
				if b.sample == nil && len(in) > 16 && len(in) < 64 {
					b.sample = hx(in)
				}
			}
		})
	}
	// small exhaustive alphabet strings with all-nil callbacks and with one failing callback
	maxLen := c.N(4, 5)
	total := gen.AlphaCount(maxLen)
	const chunk = 10000
	for bi := 0; bi*chunk < total; bi++ {
		batch("alpha", bi, map[string]any{"from": bi * chunk, "max_len": maxLen}, func(b *B) {
			r := c.Rand("c17alpha", bi)
			for i := bi * chunk; i < (bi+1)*chunk && i < total; i++ {
				checkC17(b, dec, gen.AlphaString(i), r)
			}
		})
	}
	// error trees: exhaustive up to maxNodes nodes
	memo := map[int]int{}
	maxNodes := c.N(5, 6)
	bi := 0
	for n := 1; n <= maxNodes; n++ {
		cnt := countTrees(n, memo)
		for from := 0; from < cnt; from += 5000 {
			n, from := n, from
			batch("trees", bi, map[string]any{"nodes": n, "from": from, "of": cnt}, func(b *B) {
				for i := from; i < from+5000 && i < cnt; i++ {
					g := &treeGen{}
					tree := g.buildTree(n, i, memo)
					b.evals++
					b.Guard(func() any { return renderTree(tree) }, func() {
						checkFromErr(b, tree, func() map[string]any { return map[string]any{} })
					})
					if i%97 == 0 {
						b.Sig(renderTree(tree))
					}
					if b.sample == nil && n >= 4 {
						b.sample = renderTree(tree)
					}
				}
			})
			bi++
		}
	}
	c.Info("trees", map[string]any{"exhaustive_up_to_nodes": maxNodes, "trees": func() int {
		s := 0
		for n := 1; n <= maxNodes; n++ {
			s += countTrees(n, memo)
		}
		return s
	}()})
	// random deeper trees
	nr := c.N(200, 2000)
	for bi := 0; bi < nr; bi++ {
		batch("randtrees", bi, map[string]any{"batch": bi}, func(b *B) {
			r := c.Rand("c17rt", bi)
			for i := 0; i < 2000; i++ {
				g := &treeGen{}
				n := 8 + r.IntN(5)
				cnt := countTrees(n, memo)
				tree := g.buildTree(n, r.IntN(cnt), memo)
				b.evals++
				b.Guard(func() any { return renderTree(tree) }, func() {
					checkFromErr(b, tree, func() map[string]any { return map[string]any{} })
				})
				if i%50 == 0 {
					b.Sig(renderTree(tree))
				}
			}
		})
	}
	// nil maps to nil
	batch("nil", 0, nil, func(b *B) {
		b.evals++
		if corebgp.UpdateNotificationFromErr(nil) != nil {
			b.Violate("", "UpdateNotificationFromErr(nil) != nil", nil)
		}
		b.Sig("nil")
		b.Sig("nil2")
	})
}
