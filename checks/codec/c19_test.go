package codec

import (
	"bytes"
	"errors"
	"fmt"
	"math/rand/v2"
	"net/netip"
	"testing"

	"github.com/jwhited/corebgp"

	"verif/internal/gen"
	"verif/internal/ref"
	"verif/internal/rt"
)

type gotRoute struct {
	id uint32
	p  netip.Prefix
}

// wrapper is one of the six exported prefix-list entry points.
type wrapper struct {
	name      string
	v6, ap    bool
	wantSub   uint8 // subcode of the failure NOTIFICATION (code 3)
	run       func(b []byte) (routes []gotRoute, called bool, err error)
	classNote string
}

func plainFn(mk func(fn func(t *int, p []netip.Prefix) error) corebgp.DecodeFn[*int]) func(b []byte) ([]gotRoute, bool, error) {
	return func(b []byte) (out []gotRoute, called bool, err error) {
		f := mk(func(_ *int, p []netip.Prefix) error {
			called = true
			for _, x := range p {
				out = append(out, gotRoute{p: x})
			}
			return nil
		})
		err = f(new(int), b)
		return
	}
}

func apFn(mk func(fn func(t *int, p []corebgp.AddPathPrefix) error) corebgp.DecodeFn[*int]) func(b []byte) ([]gotRoute, bool, error) {
	return func(b []byte) (out []gotRoute, called bool, err error) {
		f := mk(func(_ *int, p []corebgp.AddPathPrefix) error {
			called = true
			for _, x := range p {
				out = append(out, gotRoute{id: x.ID, p: x.Prefix})
			}
			return nil
		})
		err = f(new(int), b)
		return
	}
}

var wrappers = []wrapper{
	{name: "NewNLRIDecodeFn", wantSub: 10, run: plainFn(corebgp.NewNLRIDecodeFn[*int])},
	{name: "NewNLRIAddPathDecodeFn", ap: true, wantSub: 10, run: apFn(corebgp.NewNLRIAddPathDecodeFn[*int])},
	{name: "NewWithdrawnRoutesDecodeFn", wantSub: 0, run: plainFn(corebgp.NewWithdrawnRoutesDecodeFn[*int])},
	{name: "NewWithdrawnAddPathRoutesDecodeFn", ap: true, wantSub: 0, run: apFn(corebgp.NewWithdrawnAddPathRoutesDecodeFn[*int])},
	{name: "DecodeMPIPv6Prefixes", v6: true, wantSub: 0, run: func(b []byte) (out []gotRoute, called bool, err error) {
		p, err := corebgp.DecodeMPIPv6Prefixes(b)
		for _, x := range p {
			out = append(out, gotRoute{p: x})
		}
		return out, err == nil, err
	}},
	{name: "DecodeMPIPv6AddPathPrefixes", v6: true, ap: true, wantSub: 0, run: func(b []byte) (out []gotRoute, called bool, err error) {
		p, err := corebgp.DecodeMPIPv6AddPathPrefixes(b)
		for _, x := range p {
			out = append(out, gotRoute{id: x.ID, p: x.Prefix})
		}
		return out, err == nil, err
	}},
}

func checkPrefixes(b *B, w wrapper, field []byte) {
	b.evals++
	want, ok := ref.DecodePrefixes(field, w.v6, w.ap)
	b.Guard(func() any { return map[string]any{"fn": w.name, "field": hx(field)} }, func() {
		got, called, err := w.run(field)
		wit := func() map[string]any {
			var gs []string
			for _, g := range got {
				gs = append(gs, fmt.Sprintf("id=%d %v", g.id, g.p))
			}
			var ws []string
			for _, r := range want {
				ws = append(ws, fmt.Sprintf("id=%d /%d %x", r.ID, r.Bits, r.Addr))
			}
			return map[string]any{"fn": w.name, "field": hx(field), "returned": fmt.Sprint(err), "decoded": gs, "reference_ok": ok, "reference": ws}
		}
		if !ok {
			if err == nil {
				b.Violate("", w.name+": accepted a field the reference decoder rejects (length octet too large or field ends inside an entry)", wit())
				return
			}
			if called {
				b.Violate("", w.name+": user closure invoked although decoding failed", wit())
			}
			var n *corebgp.Notification
			if !errors.As(err, &n) || n.Code != 3 || n.Subcode != w.wantSub {
				b.Violate("", fmt.Sprintf("%s: failure must carry NOTIFICATION (3,%d), got %v", w.name, w.wantSub, err), wit())
			}
			return
		}
		if err != nil {
			b.Violate("", w.name+": rejected a well-formed field", wit())
			return
		}
		if len(got) != len(want) {
			b.Violate("", fmt.Sprintf("%s: decoded %d routes, %d were encoded", w.name, len(got), len(want)), wit())
			return
		}
		for i := range want {
			g, r := got[i], want[i]
			addr := g.p.Addr()
			if g.id != r.ID || g.p.Bits() != r.Bits || addr.Is4() == w.v6 || !ref.MaskedEqual(r.Addr, addr.AsSlice(), r.Bits) {
				b.Violate("", fmt.Sprintf("%s: route %d differs from the encoded one", w.name, i), wit())
				return
			}
			// octets that were never encoded cannot carry anything: the address is zero beyond
			// the ceil(bits/8) octets on the wire (trailing bits inside the last encoded octet may be
			// kept verbatim or masked)
			as := addr.AsSlice()
			for k := len(r.Addr); k < len(as); k++ {
				if as[k] != 0 {
					b.Violate("", fmt.Sprintf("%s: route %d (/%d, %d octets encoded) has non-zero address octet %d (%#02x) that was never on the wire: an invented address", w.name, i, r.Bits, len(r.Addr), k, as[k]), wit())
					return
				}
			}
			if n := len(r.Addr); n > 0 && as[n-1] != r.Addr[n-1] && r.Bits%8 != 0 && as[n-1] != r.Addr[n-1]&^(0xff>>(r.Bits%8)) {
				b.Violate("", fmt.Sprintf("%s: route %d: last encoded octet %#02x decoded as %#02x (neither verbatim nor masked)", w.name, i, r.Addr[n-1], as[n-1]), wit())
				return
			}
		}
	})
	b.Sig(w.name, ok, min(len(want), 5), lenClass(len(field)))
}

func checkMPReach(b *B, flags uint8, val []byte) {
	b.evals++
	want := ref.SplitMPReach(val)
	b.Guard(func() any { return map[string]any{"fn": "NewMPReachNLRIDecodeFn", "value": hx(val), "flags": flags} }, func() {
		var called bool
		var afi uint16
		var safi uint8
		var nh, nlri []byte
		sentinel := errors.New("sentinel from closure")
		f := corebgp.NewMPReachNLRIDecodeFn[*int](func(_ *int, a uint16, s uint8, h, n []byte) error {
			called, afi, safi, nh, nlri = true, a, s, append([]byte{}, h...), append([]byte{}, n...)
			return sentinel
		})
		err := f(new(int), corebgp.PathAttrFlags(flags), val)
		wit := map[string]any{"value": hx(val), "flags": flags, "returned": fmt.Sprint(err), "called": called,
			"got": fmt.Sprintf("afi=%d safi=%d nh=%x nlri=%x", afi, safi, nh, nlri), "reference": fmt.Sprintf("ok=%v afi=%d safi=%d nh=%x nlri=%x", want.OK, want.AFI, want.SAFI, want.NextHop, want.NLRI)}
		flagsBad := flags&0x80 == 0 || flags&0x40 != 0
		var taw *corebgp.TreatAsWithdrawUpdateErr
		if flagsBad && !errors.As(err, &taw) {
			b.Violate("", "MP_REACH_NLRI with flags other than optional non-transitive did not add a treat-as-withdraw error", wit)
		}
		if !flagsBad && errors.As(err, &taw) {
			b.Violate("", "MP_REACH_NLRI with correct flags produced a treat-as-withdraw error", wit)
		}
		if !want.OK {
			var n *corebgp.Notification
			if called {
				b.Violate("", "MP_REACH_NLRI closure invoked for an attribute too short to contain its fields", wit)
			}
			if !errors.As(err, &n) || n.Code != 3 || n.Subcode != 5 {
				b.Violate("", "MP_REACH_NLRI too short: want session-reset-class NOTIFICATION (3,5)", wit)
			}
			return
		}
		if !called {
			b.Violate("", "MP_REACH_NLRI closure not invoked for a well-formed attribute", wit)
			return
		}
		if !errors.Is(err, sentinel) {
			b.Violate("", "error returned by the MP_REACH_NLRI closure is not in the result", wit)
		}
		if afi != want.AFI || safi != want.SAFI || !bytes.Equal(nh, want.NextHop) || !bytes.Equal(nlri, want.NLRI) {
			b.Violate("", "MP_REACH_NLRI closure arguments differ from the fields delimited by the next-hop length octet", wit)
		}
	})
	nhl := -1
	if len(val) > 3 {
		nhl = int(val[3])
	}
	b.Sig("reach", want.OK, nhl, flags>>6)
}

func checkMPUnreach(b *B, flags uint8, val []byte) {
	b.evals++
	want := ref.SplitMPUnreach(val)
	b.Guard(func() any { return map[string]any{"fn": "NewMPUnreachNLRIDecodeFn", "value": hx(val)} }, func() {
		var called bool
		var afi uint16
		var safi uint8
		var wd []byte
		f := corebgp.NewMPUnreachNLRIDecodeFn[*int](func(_ *int, a uint16, s uint8, w []byte) error {
			called, afi, safi, wd = true, a, s, append([]byte{}, w...)
			return nil
		})
		err := f(new(int), corebgp.PathAttrFlags(flags), val)
		wit := map[string]any{"value": hx(val), "flags": flags, "returned": fmt.Sprint(err), "called": called}
		flagsBad := flags&0x80 == 0 || flags&0x40 != 0
		var taw *corebgp.TreatAsWithdrawUpdateErr
		if flagsBad != errors.As(err, &taw) {
			b.Violate("", "MP_UNREACH_NLRI flags handling: treat-as-withdraw error present iff flags are not optional non-transitive", wit)
		}
		if !want.OK {
			var n *corebgp.Notification
			if called || !errors.As(err, &n) || n.Code != 3 || n.Subcode != 5 {
				b.Violate("", "MP_UNREACH_NLRI shorter than 3 bytes: want session-reset-class NOTIFICATION (3,5) and no closure call", wit)
			}
			return
		}
		if !called || afi != want.AFI || safi != want.SAFI || !bytes.Equal(wd, want.Withdrawn) {
			b.Violate("", "MP_UNREACH_NLRI closure arguments differ from AFI/SAFI/withdrawn fields", wit)
		}
		if !flagsBad && err != nil {
			b.Violate("", "MP_UNREACH_NLRI well-formed attribute returned an error", wit)
		}
	})
	b.Sig("unreach", want.OK, min(len(val), 6), flags>>6)
}

func randB(r *rand.Rand, n int) []byte {
	b := make([]byte, n)
	for i := range b {
		b[i] = byte(r.Uint32())
	}
	return b
}

func TestC19(t *testing.T) {
	c := rt.Get()
	// round trips and corruptions of prefix lists through the six wrappers
	nb := c.N(400, 8000)
	for k := 0; k < nb; k++ {
		batch("lists", k, map[string]any{"batch": k}, func(b *B) {
			r := c.Rand("c19lists", k)
			for i := 0; i < 120; i++ {
				w := wrappers[r.IntN(len(wrappers))]
				n := r.IntN(8)
				if r.IntN(30) == 0 {
					n = 100 + r.IntN(200)
				}
				field := gen.Prefixes(r, n, w.v6, w.ap)
				checkPrefixes(b, w, field)
				if b.sample == nil && n > 1 && n < 5 {
					b.sample = map[string]any{"fn": w.name, "field": hx(field)}
				}
				if len(field) > 200 {
					continue
				}
				// every truncation point
				for cut := 0; cut < len(field); cut++ {
					checkPrefixes(b, w, field[:cut])
				}
				// corrupt every octet with boundary values (length octets are among them)
				for pos := 0; pos < len(field); pos++ {
					for _, v := range []byte{0, 1, 31, 32, 33, 127, 128, 129, 255} {
						m := append([]byte{}, field...)
						m[pos] = v
						checkPrefixes(b, w, m)
					}
				}
			}
		})
	}
	// every single-entry field: all length octets 0..255 x all field sizes around the entry size
	batch("single", 0, map[string]any{"space": "length octet 0..255 x trailing bytes 0..20 x 6 wrappers"}, func(b *B) {
		r := c.Rand("c19single", 0)
		for _, w := range wrappers {
			for l := 0; l < 256; l++ {
				for n := 0; n <= 21; n++ {
					f := append([]byte{byte(l)}, randB(r, n)...)
					if w.ap {
						f = append(randB(r, 4), f...)
					}
					checkPrefixes(b, w, f)
				}
			}
			for n := 0; n < 5; n++ { // fields shorter than a path id
				checkPrefixes(b, w, randB(r, n))
			}
		}
	})
	// MP_REACH: all next-hop length octets x body sizes around the boundary, all flag octets sampled
	for nhl := 0; nhl < 256; nhl++ {
		batch("mpreach", nhl, map[string]any{"nh_len_octet": nhl}, func(b *B) {
			r := c.Rand("c19reach", nhl)
			for _, total := range []int{0, 1, 2, 3, 4, 5, 4 + nhl - 1, 4 + nhl, 4 + nhl + 1, 4 + nhl + 2, 4 + nhl + 3, 4 + nhl + 20, 4077} {
				if total < 0 {
					continue
				}
				val := randB(r, total)
				if total > 3 {
					val[3] = byte(nhl)
				}
				for _, fl := range []uint8{0x80, 0x90, 0x40, 0xc0, 0x00, uint8(r.Uint32())} {
					checkMPReach(b, fl, val)
				}
			}
			if nhl == 16 {
				b.sample = map[string]any{"nh_len": 16, "sizes": "0..5, 19..23, 40, 4077"}
			}
		})
	}
	batch("mpreachflags", 0, map[string]any{"space": "all 256 flag octets"}, func(b *B) {
		r := c.Rand("c19rf", 0)
		for fl := 0; fl < 256; fl++ {
			val := append([]byte{0, 2, 1, 16}, randB(r, 16+1+5)...)
			checkMPReach(b, uint8(fl), val)
			checkMPUnreach(b, uint8(fl), append([]byte{0, 2, 1}, randB(r, r.IntN(20))...))
		}
	})
	batch("mpunreach", 0, map[string]any{"space": "lengths 0..40 and 4077"}, func(b *B) {
		r := c.Rand("c19un", 0)
		for rep := 0; rep < 50; rep++ {
			for l := 0; l <= 40; l++ {
				checkMPUnreach(b, 0x80, randB(r, l))
			}
			checkMPUnreach(b, 0x80, randB(r, 4077))
		}
	})
	// IPv6 next hops: every length 0..64 and 255
	batch("nexthops", 0, map[string]any{"space": "next hop lengths 0..64, 255"}, func(b *B) {
		r := c.Rand("c19nh", 0)
		for l := 0; l <= 65; l++ {
			if l == 65 {
				l = 255
			}
			nh := randB(r, l)
			b.evals++
			b.Guard(func() any { return hx(nh) }, func() {
				got, err := corebgp.DecodeMPReachIPv6NextHops(nh)
				if l == 16 || l == 32 {
					if err != nil || len(got) != l/16 {
						b.Violate("", fmt.Sprintf("DecodeMPReachIPv6NextHops rejected / miscounted a %d-byte next hop", l), hx(nh))
						return
					}
					for i, a := range got {
						if !bytes.Equal(a.AsSlice(), nh[16*i:16*i+16]) {
							b.Violate("", "DecodeMPReachIPv6NextHops returned a different address", hx(nh))
						}
					}
					return
				}
				var n *corebgp.Notification
				if err == nil || !errors.As(err, &n) || n.Code != 3 || n.Subcode != 0 {
					b.Violate("", fmt.Sprintf("DecodeMPReachIPv6NextHops(%d bytes): want session-reset-class NOTIFICATION (3,0), got %v %v", l, got, err), hx(nh))
				}
			})
			b.Sig("nh", l)
		}
	})
}
