package codec

import (
	"errors"
	"fmt"
	"net/netip"
	"os"
	"path/filepath"
	"strconv"
	"strings"
	"testing"

	"github.com/jwhited/corebgp"

	"verif/internal/gen"
	"verif/internal/rt"
	"verif/internal/wire"
)

// C05 (exported decoders): every exported decoding entry point returns instead
// of panicking for every byte slice.

type sink struct{ n int }

var fullDecoder = corebgp.NewUpdateDecoder[*sink](
	corebgp.NewWithdrawnRoutesDecodeFn[*sink](func(s *sink, p []netip.Prefix) error { s.n += len(p); return nil }),
	func(s *sink, code uint8, flags corebgp.PathAttrFlags, b []byte) error {
		switch code {
		case corebgp.PATH_ATTR_ORIGIN:
			var x corebgp.OriginPathAttr
			return x.Decode(flags, b)
		case corebgp.PATH_ATTR_AS_PATH:
			var x corebgp.ASPathAttr
			return x.Decode(flags, b)
		case corebgp.PATH_ATTR_NEXT_HOP:
			var x corebgp.NextHopPathAttr
			return x.Decode(flags, b)
		case corebgp.PATH_ATTR_MED:
			var x corebgp.MEDPathAttr
			return x.Decode(flags, b)
		case corebgp.PATH_ATTR_LOCAL_PREF:
			var x corebgp.LocalPrefPathAttr
			return x.Decode(flags, b)
		case corebgp.PATH_ATTR_ATOMIC_AGGREGATE:
			var x corebgp.AtomicAggregatePathAttr
			return x.Decode(flags, b)
		case corebgp.PATH_ATTR_AGGREGATOR:
			var x corebgp.AggregatorPathAttr
			return x.Decode(flags, b)
		case corebgp.PATH_ATTR_COMMUNITY:
			var x corebgp.CommunitiesPathAttr
			return x.Decode(flags, b)
		case corebgp.PATH_ATTR_ORIGINATOR_ID:
			var x corebgp.OriginatorIDPathAttr
			return x.Decode(flags, b)
		case corebgp.PATH_ATTR_CLUSTER_LIST:
			var x corebgp.ClusterListPathAttr
			return x.Decode(flags, b)
		case corebgp.PATH_ATTR_LARGE_COMMUNITY:
			var x corebgp.LargeCommunitiesPathAttr
			return x.Decode(flags, b)
		case corebgp.PATH_ATTR_MP_REACH_NLRI:
			return corebgp.NewMPReachNLRIDecodeFn[*sink](func(s *sink, afi uint16, safi uint8, nh, nlri []byte) error {
				_, e1 := corebgp.DecodeMPReachIPv6NextHops(nh)
				_, e2 := corebgp.DecodeMPIPv6Prefixes(nlri)
				_, e3 := corebgp.DecodeMPIPv6AddPathPrefixes(nlri)
				return errors.Join(e1, e2, e3)
			})(s, flags, b)
		case corebgp.PATH_ATTR_MP_UNREACH_NLRI:
			return corebgp.NewMPUnreachNLRIDecodeFn[*sink](func(s *sink, afi uint16, safi uint8, wd []byte) error {
				_, e := corebgp.DecodeMPIPv6Prefixes(wd)
				return e
			})(s, flags, b)
		}
		return nil
	},
	corebgp.NewNLRIDecodeFn[*sink](func(s *sink, p []netip.Prefix) error { s.n += len(p); return nil }),
)

var addPathDecoder = corebgp.NewUpdateDecoder[*sink](
	corebgp.NewWithdrawnAddPathRoutesDecodeFn[*sink](func(s *sink, p []corebgp.AddPathPrefix) error { return nil }),
	func(s *sink, code uint8, flags corebgp.PathAttrFlags, b []byte) error { return nil },
	corebgp.NewNLRIAddPathDecodeFn[*sink](func(s *sink, p []corebgp.AddPathPrefix) error { return nil }),
)

func hammer(b *B, in []byte) {
	b.evals++
	b.Guard(func() any { return hx(in) }, func() {
		e1 := fullDecoder.Decode(&sink{}, in)
		e2 := addPathDecoder.Decode(&sink{}, in)
		for _, e := range []error{e1, e2} {
			if n := corebgp.UpdateNotificationFromErr(e); n != nil {
				_ = n.Error()
			} else if e != nil {
				b.Violate("", "UpdateNotificationFromErr returned nil for a non-nil error", hx(in))
			}
		}
		// the slice as an attribute value / capability value / message body
		fl := corebgp.PathAttrFlags(0)
		if len(in) > 0 {
			fl = corebgp.PathAttrFlags(in[0])
		}
		for _, a := range []interface {
			Decode(corebgp.PathAttrFlags, []byte) error
		}{new(corebgp.OriginPathAttr), new(corebgp.ASPathAttr), new(corebgp.NextHopPathAttr), new(corebgp.MEDPathAttr), new(corebgp.LocalPrefPathAttr),
			new(corebgp.AtomicAggregatePathAttr), new(corebgp.AggregatorPathAttr), new(corebgp.CommunitiesPathAttr), new(corebgp.OriginatorIDPathAttr),
			new(corebgp.ClusterListPathAttr), new(corebgp.LargeCommunitiesPathAttr)} {
			a.Decode(fl, in)
			a.Decode(0x40, in)
			a.Decode(0xc0, in)
		}
		corebgp.DecodeAddPathTuples(in)
		var tp corebgp.AddPathTuple
		tp.Decode(in)
		corebgp.DecodeMPReachIPv6NextHops(in)
		corebgp.DecodeMPIPv6Prefixes(in)
		corebgp.DecodeMPIPv6AddPathPrefixes(in)
		if len(in) <= wire.MaxBody {
			for ty := 0; ty < 6; ty++ {
				corebgp.VerifMessageFromBytes(in, uint8(ty))
			}
		}
	})
	b.Sig(lenClass(len(in)), len(in) > 0 && in[0] == 0)
}

// corpusSeeds loads the byte slices of the project's fuzz corpus.
func corpusSeeds() [][]byte {
	var out [][]byte
	root := os.Getenv("VERIF_REPO")
	if root == "" {
		root = "/repo"
	}
	files, _ := filepath.Glob(root + "/testdata/fuzz/FuzzUpdateDecoder_Decode/*")
	for _, f := range files {
		data, err := os.ReadFile(f)
		if err != nil {
			continue
		}
		for _, line := range strings.Split(string(data), "\n") {
			if strings.HasPrefix(line, "[]byte(") {
				if s, err := strconv.Unquote(strings.TrimSuffix(strings.TrimPrefix(line, "[]byte("), ")")); err == nil {
					out = append(out, []byte(s))
				}
			}
		}
	}
	return out
}

func TestC05Decoders(t *testing.T) {
	c := rt.Get()
	seeds := corpusSeeds()
	batch("corpus", 0, map[string]any{"files": len(seeds)}, func(b *B) {
		r := c.Rand("c05corpus", 0)
		for _, s := range seeds {
			hammer(b, s)
			for k := 0; k < 2000; k++ {
				m := s
				for j := 1 + r.IntN(4); j > 0; j-- {
					m = gen.Mutate(r, m)
				}
				hammer(b, m)
			}
		}
		b.Sig("corpus")
		b.Sig(fmt.Sprint(len(seeds)))
	})
	nb := c.N(400, 12000)
	for k := 0; k < nb; k++ {
		batch("mixed", k, map[string]any{"batch": k}, func(b *B) {
			r := c.Rand("c05mixed", k)
			for i := 0; i < 1200; i++ {
				in := gen.UpdateInput(r)
				hammer(b, in)
				if b.sample == nil && len(in) < 50 && len(in) > 10 {
					b.sample = hx(in)
				}
			}
		})
	}
	// structured oversize slices with every boundary value of the two length fields
	batch("oversize", 0, map[string]any{"lengths": []int{65535, 65536, 65538, 70000, 131072}}, func(b *B) {
		r := c.Rand("c05big", 0)
		for _, n := range []int{65535, 65536, 65537, 65538, 65539, 70000, 131072} {
			for k := 0; k < 200; k++ {
				hammer(b, gen.BigUpdate(r, n))
			}
		}
	})
}
