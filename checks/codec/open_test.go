package codec

import (
	"bytes"
	"fmt"
	"testing"
	"time"

	"github.com/jwhited/corebgp"

	"verif/internal/gen"
	"verif/internal/ref"
	"verif/internal/rt"
	"verif/internal/wire"
)

const localID = 0x0a000001

func toWireCaps(cs []corebgp.Capability) []wire.Cap {
	var out []wire.Cap
	for _, c := range cs {
		out = append(out, wire.Cap{Code: c.Code, Value: c.Value})
	}
	return out
}

func toCoreCaps(cs []wire.Cap) []corebgp.Capability {
	var out []corebgp.Capability
	for _, c := range cs {
		out = append(out, corebgp.Capability{Code: c.Code, Value: c.Value})
	}
	return out
}

// ------------------------------------------------------------ C02 (unit level)

// judgeReal runs the real decode+validate pipeline on an OPEN body.
func judgeReal(body []byte, cfg ref.OpenCfg) (accepted bool, n *corebgp.Notification, caps []corebgp.Capability, other error) {
	kind, open, _, _, err := corebgp.VerifMessageFromBytes(body, wire.TypeOpen)
	if err != nil {
		nn, out, ok := corebgp.VerifNotifOf(err)
		if !ok || !out {
			return false, nil, nil, fmt.Errorf("decode error without an outbound NOTIFICATION: %v (kind %q)", err, kind)
		}
		return false, nn, nil, nil
	}
	if err := open.Validate(cfg.LocalID, cfg.LocalAS, cfg.RemoteAS); err != nil {
		nn, out, ok := corebgp.VerifNotifOf(err)
		if !ok || !out {
			return false, nil, nil, fmt.Errorf("validate error without an outbound NOTIFICATION: %v", err)
		}
		return false, nn, nil, nil
	}
	return true, nil, open.Capabilities(), nil
}

func checkOpenBody(b *B, body []byte, cfg ref.OpenCfg) {
	b.evals++
	v := ref.JudgeOpen(body, cfg)
	b.Guard(func() any { return map[string]any{"body": hx(body), "cfg": cfg} }, func() {
		acc, n, caps, other := judgeReal(body, cfg)
		wit := map[string]any{"body": hx(body), "cfg": fmt.Sprintf("%+v", cfg), "faults_present": fmt.Sprint(v.Faults)}
		switch {
		case other != nil:
			b.Violate("", other.Error(), wit)
		case acc && !v.Accept():
			b.Violate("", fmt.Sprintf("unacceptable OPEN accepted; faults present: %v", v.Faults), wit)
		case !acc && v.Accept():
			b.Violate("", fmt.Sprintf("acceptable OPEN rejected with NOTIFICATION %s", fmtN(n)), wit)
		case !acc && !v.Allows(n.Code, n.Subcode, n.Data):
			b.Violate("", fmt.Sprintf("OPEN rejected with NOTIFICATION %s, which applies to none of the faults present: %v", fmtN(n), v.Faults), wit)
		case acc && !wire.EqualCaps(toWireCaps(caps), v.Caps):
			b.Violate("", fmt.Sprintf("capabilities handed to the plugin %v differ from those carried %v", toWireCaps(caps), v.Caps), wit)
		}
	})
	fs := ""
	for _, f := range v.Faults {
		fs += fmt.Sprintf("%d.%d ", f.Code, f.Sub)
	}
	b.Sig(fs, cfg.LocalAS == cfg.RemoteAS, cfg.RemoteAS > 65535)
}

func TestC02Unit(t *testing.T) {
	c := rt.Get()
	for ci, cf := range gen.OpenCfgs {
		cfg := ref.OpenCfg{LocalID: localID, LocalAS: cf[0], RemoteAS: cf[1]}
		batch("lattice", ci, map[string]any{"cfg": fmt.Sprintf("%+v", cfg)}, func(b *B) {
			n := gen.OpenLattice(localID, cfg.RemoteAS, func(body []byte) {
				checkOpenBody(b, body, cfg)
				if b.sample == nil && len(body) > 14 {
					b.sample = hx(body)
				}
			})
			b.Event("lattice_bodies")
			_ = n
		})
	}
	nb := c.N(600, 16000)
	for k := 0; k < nb; k++ {
		batch("random", k, map[string]any{"batch": k}, func(b *B) {
			r := c.Rand("c02rand", k)
			for i := 0; i < 2500; i++ {
				cf := gen.OpenCfgs[r.IntN(len(gen.OpenCfgs))]
				cfg := ref.OpenCfg{LocalID: localID, LocalAS: cf[0], RemoteAS: cf[1]}
				body := gen.RandOpenBody(r, cfg.LocalID, cfg.LocalAS, cfg.RemoteAS)
				checkOpenBody(b, body, cfg)
				if b.sample == nil && i == 7 {
					b.sample = hx(body)
				}
			}
		})
	}
	// optional-parameter length octet: every value against every real length 0..40
	batch("optlen", 0, map[string]any{"space": "optlen octet 0..255 x parameter bytes 0..40"}, func(b *B) {
		cfg := ref.OpenCfg{LocalID: localID, LocalAS: 65001, RemoteAS: 65002}
		good := wire.CapParam(wire.FourOctetAS(65002), wire.Cap{Code: 1, Value: []byte{0, 1, 0, 1}}, wire.Cap{Code: 70, Value: make([]byte, 22)}).Bytes()
		for real := 0; real <= len(good); real++ {
			for ol := 0; ol < 256; ol++ {
				checkOpenBody(b, wire.OpenBodyRaw(4, 65002, 90, 0x0a000101, ol, good[:real]), cfg)
			}
		}
	})
}

// ------------------------------------------------------------ C14 (unit level)

var asBoundary = []uint32{1, 2, 23455, 23456, 23457, 65534, 65535, 65536, 65537, 4199999999, 4200000000, 4294967294, 4294967295}
var holdBoundary = []uint16{0, 3, 4, 9, 90, 180, 255, 256, 65534, 65535}

func checkNewOpen(b *B, as uint32, hold uint16, id uint32, caps []wire.Cap) {
	b.evals++
	exp := ref.ExpectOpen(as, hold, id, caps)
	b.Guard(func() any { return map[string]any{"as": as, "hold": hold, "id": id, "caps": fmt.Sprint(caps)} }, func() {
		wit := map[string]any{"local_as": as, "hold": hold, "id": fmt.Sprintf("%08x", id), "plugin_caps": fmt.Sprint(caps), "representable": exp.Representable}
		o, err := corebgp.VerifNewOpen(as, time.Duration(hold)*time.Second, id, toCoreCaps(caps))
		var msg []byte
		if err == nil {
			msg, err = o.Encode()
		}
		if err != nil {
			if exp.Representable {
				b.Violate("", fmt.Sprintf("representable OPEN refused: %v", err), wit)
			}
			return
		}
		wit["message"] = hx(msg)
		var p wire.Parser
		ms := p.Feed(msg)
		if p.Err != nil || len(ms) != 1 || p.Pending() != 0 || ms[0].Type != wire.TypeOpen {
			b.Violate("", fmt.Sprintf("encoded OPEN is not one well-formed message: err=%v messages=%d trailing=%d", p.Err, len(ms), p.Pending()), wit)
			return
		}
		if why := exp.CheckOpen(ms[0].Open); why != "" {
			if !exp.Representable {
				// every OPEN that is emitted carries exactly the capabilities (whatever the
				// layout of the parameters); one that silently leaves some out does not
				why = "the capabilities do not fit in one parameter (or a value exceeds 255 octets), and the OPEN that was built anyway differs from them: " + why
			}
			b.Violate("", "encoded OPEN does not reflect configuration/capabilities: "+why, wit)
		}
	})
	b.Sig(exp.Representable, as > 65535, min(len(caps), 9), hold == 0)
}

func TestC14Unit(t *testing.T) {
	c := rt.Get()
	batch("boundary", 0, map[string]any{"space": "AS boundary x hold boundary x 3 capability lists"}, func(b *B) {
		r := c.Rand("c14b", 0)
		for _, as := range asBoundary {
			for _, h := range holdBoundary {
				checkNewOpen(b, as, h, r.Uint32(), nil)
				checkNewOpen(b, as, h, r.Uint32(), []wire.Cap{{Code: 1, Value: []byte{0, 1, 0, 1}}, {Code: 65, Value: u32b(as + 1)}, {Code: 2}})
				checkNewOpen(b, as, h, r.Uint32(), gen.PluginCaps(r))
			}
		}
	})
	// total capability bytes around the 255 limit, exactly
	batch("limit", 0, map[string]any{"space": "one capability of value length 0..300; two capabilities summing to 240..262 bytes"}, func(b *B) {
		for l := 0; l <= 300; l++ {
			checkNewOpen(b, 65001, 90, localID, []wire.Cap{{Code: 70, Value: make([]byte, l)}})
		}
		for l1 := 0; l1 <= 255; l1 += 5 {
			for tot := 240; tot <= 262; tot++ {
				l2 := tot - 6 - 2 - l1 - 2
				if l2 < 0 || l2 > 300 {
					continue
				}
				checkNewOpen(b, 4200000001, 90, localID, []wire.Cap{{Code: 70, Value: make([]byte, l1)}, {Code: 71, Value: make([]byte, l2)}})
			}
		}
	})
	nb := c.N(600, 12000)
	for k := 0; k < nb; k++ {
		batch("random", k, map[string]any{"batch": k}, func(b *B) {
			r := c.Rand("c14r", k)
			for i := 0; i < 1500; i++ {
				as := r.Uint32()
				if r.IntN(3) == 0 {
					as = asBoundary[r.IntN(len(asBoundary))]
				}
				if as == 0 {
					as = 1
				}
				h := uint16(r.Uint32())
				if r.IntN(2) == 0 {
					h = holdBoundary[r.IntN(len(holdBoundary))]
				}
				if h == 1 || h == 2 {
					h = 3
				}
				caps := gen.PluginCaps(r)
				checkNewOpen(b, as, h, r.Uint32(), caps)
				if b.sample == nil && len(caps) > 1 && len(caps) < 4 {
					b.sample = map[string]any{"as": as, "hold": h, "caps": fmt.Sprint(caps)}
				}
			}
		})
	}
}

func u32b(v uint32) []byte { return []byte{byte(v >> 24), byte(v >> 16), byte(v >> 8), byte(v)} }

// ------------------------------------------------------------ C15

func checkNotifRoundTrip(b *B, code, sub uint8, data []byte) {
	b.evals++
	b.Guard(func() any { return map[string]any{"code": code, "sub": sub, "data": hx(data)} }, func() {
		msg, err := corebgp.VerifEncodeNotification(&corebgp.Notification{Code: code, Subcode: sub, Data: data})
		if err != nil {
			b.Violate("", fmt.Sprintf("NOTIFICATION(%d,%d,len %d) cannot be encoded: %v", code, sub, len(data), err), nil)
			return
		}
		want := wire.Notification(code, sub, data)
		if !bytes.Equal(msg, want) {
			b.Violate("", fmt.Sprintf("encode(NOTIFICATION(%d,%d,data %s)) = %s, want %s", code, sub, hx(data), hx(msg), hx(want)), nil)
			return
		}
		n, err := corebgp.VerifDecodeNotification(msg[wire.HeaderLen:])
		if err != nil || n.Code != code || n.Subcode != sub || !bytes.Equal(n.Data, data) {
			b.Violate("", fmt.Sprintf("decode(encode(NOTIFICATION(%d,%d,data %s))) = %s err=%v", code, sub, hx(data), fmtN(n), err), nil)
		}
	})
}

func checkNotifBytes(b *B, body []byte) {
	b.evals++
	b.Guard(func() any { return hx(body) }, func() {
		n, err := corebgp.VerifDecodeNotification(body)
		_, refErr := wire.ParseNotifStrict(body)
		if (err == nil) != (refErr == nil) {
			b.Violate("", fmt.Sprintf("NOTIFICATION decoder verdict %v differs from the reference %v for body %s", err, refErr, hx(body)), nil)
			return
		}
		if err != nil {
			return
		}
		msg, err := corebgp.VerifEncodeNotification(n)
		if err != nil || !bytes.Equal(msg, wire.Msg(wire.TypeNotification, body)) {
			b.Violate("", fmt.Sprintf("encode(decode(%s)) = %s (err %v)", hx(body), hx(msg), err), nil)
		}
	})
}

// checkOpenBytes: decoder acceptance implies strict acceptance and re-encoding
// reproduces the bytes.
func checkOpenBytes(b *B, body []byte) {
	b.evals++
	b.Guard(func() any { return hx(body) }, func() {
		kind, open, _, _, err := corebgp.VerifMessageFromBytes(body, wire.TypeOpen)
		_, refErr := wire.ParseOpenStrict(body)
		if kind == "partial" {
			b.Violate("", "messageFromBytes returned a value together with an error", hx(body))
		}
		b.Sig("openbytes", err == nil, refErr == nil, lenClass(len(body)))
		if err != nil {
			return
		}
		if refErr != nil {
			b.Violate("", fmt.Sprintf("OPEN decoder accepted a byte string the strict parser rejects (%v)", refErr), hx(body))
			return
		}
		msg, err := open.Encode()
		if err != nil || !bytes.Equal(msg, wire.Msg(wire.TypeOpen, body)) {
			b.Violate("", fmt.Sprintf("encode(decode(b)) != b for an accepted OPEN: got %s err=%v", hx(msg), err), hx(body))
		}
	})
}

// checkOpenValue: decode(encode(x)) == x for representable OPEN values.
func checkOpenValue(b *B, version uint8, as2, hold uint16, id uint32, params [][]wire.Cap) {
	b.evals++
	b.Guard(func() any { return fmt.Sprint(version, as2, hold, id, params) }, func() {
		var cp [][]corebgp.Capability
		for _, p := range params {
			cp = append(cp, toCoreCaps(p))
		}
		o := corebgp.VerifBuildOpen(version, as2, hold, id, cp)
		msg, err := o.Encode()
		wit := map[string]any{"version": version, "as": as2, "hold": hold, "id": id, "params": fmt.Sprint(params)}
		if err != nil {
			b.Violate("", fmt.Sprintf("representable OPEN value cannot be encoded: %v", err), wit)
			return
		}
		wit["encoded"] = hx(msg)
		so, perr := wire.ParseOpenStrict(msg[wire.HeaderLen:])
		if perr != nil {
			b.Violate("", fmt.Sprintf("encoded OPEN is rejected by the strict parser: %v", perr), wit)
			return
		}
		_ = so
		d, err := corebgp.VerifDecodeOpen(msg[wire.HeaderLen:])
		if err != nil {
			b.Violate("", fmt.Sprintf("decode(encode(x)) failed: %v", err), wit)
			return
		}
		v2, a2, h2, i2, p2 := d.Fields()
		same := v2 == version && a2 == as2 && h2 == hold && i2 == id && len(p2) == len(params)
		if same {
			for i := range params {
				if !wire.EqualCaps(toWireCaps(p2[i]), params[i]) {
					same = false
				}
			}
		}
		if !same {
			b.Violate("", fmt.Sprintf("decode(encode(x)) != x: got version=%d as=%d hold=%d id=%d params=%v", v2, a2, h2, i2, p2), wit)
		}
	})
	b.Sig("openvalue", len(params), version == 4)
}

func TestC15(t *testing.T) {
	c := rt.Get()
	// NOTIFICATION values: all (code, subcode) x data lengths
	for code := 0; code < 256; code++ {
		batch("notif", code, map[string]any{"code": code, "subcodes": "0..255", "data_lengths": "0..64 (thorough) / 0..8 + sampled (quick), 255, 256, 4074, 4075"}, func(b *B) {
			r := c.Rand("c15n", code)
			for sub := 0; sub < 256; sub++ {
				maxl := c.N(8, 64)
				for l := 0; l <= maxl; l++ {
					checkNotifRoundTrip(b, uint8(code), uint8(sub), randB(r, l))
				}
				for _, l := range []int{255, 256, 4074, 4075} {
					if c.Thorough() || (sub+code)%16 == 0 {
						checkNotifRoundTrip(b, uint8(code), uint8(sub), randB(r, l))
					}
				}
				b.Sig("notif", code>>4, sub>>6)
			}
			if code == 3 {
				b.sample = map[string]any{"code": 3, "sub": 1, "data": "ab"}
			}
		})
	}
	// NOTIFICATION byte strings: every string up to length 2 (3 in thorough) + random
	batch("notifbytes", 0, map[string]any{"space": "all byte strings of length <= 2 (quick) / <= 3 (thorough)"}, func(b *B) {
		checkNotifBytes(b, nil)
		for x := 0; x < 256; x++ {
			checkNotifBytes(b, []byte{byte(x)})
		}
		for x := 0; x < 65536; x++ {
			checkNotifBytes(b, []byte{byte(x >> 8), byte(x)})
		}
		if c.Thorough() {
			for x := 0; x < 1<<24; x++ {
				checkNotifBytes(b, []byte{byte(x >> 16), byte(x >> 8), byte(x)})
			}
		}
		b.Sig("nb1")
		b.Sig("nb2")
	})
	// OPEN byte strings: lattice + random + mutated
	nb := c.N(400, 10000)
	for k := 0; k < nb; k++ {
		batch("openbytes", k, map[string]any{"batch": k}, func(b *B) {
			r := c.Rand("c15ob", k)
			for i := 0; i < 2500; i++ {
				cf := gen.OpenCfgs[r.IntN(len(gen.OpenCfgs))]
				body := gen.RandOpenBody(r, localID, cf[0], cf[1])
				if r.IntN(3) == 0 {
					body = gen.Mutate(r, body)
				}
				checkOpenBytes(b, body)
				if b.sample == nil && i == 3 {
					b.sample = hx(body)
				}
			}
		})
	}
	batch("openlattice", 0, map[string]any{"space": "field lattice x parameter layouts"}, func(b *B) {
		gen.OpenLattice(localID, 65002, func(body []byte) { checkOpenBytes(b, body) })
		// every optlen octet against every real length
		good := wire.CapParam(wire.FourOctetAS(65002), wire.Cap{Code: 1, Value: []byte{0, 1, 0, 1}}).Bytes()
		for real := 0; real <= len(good); real++ {
			for ol := 0; ol < 256; ol++ {
				checkOpenBytes(b, wire.OpenBodyRaw(4, 65002, 90, 1, ol, good[:real]))
			}
		}
		// every short body
		for l := 0; l < 12; l++ {
			checkOpenBytes(b, make([]byte, l))
		}
	})
	// OPEN values
	nv := c.N(300, 8000)
	for k := 0; k < nv; k++ {
		batch("openvalues", k, map[string]any{"batch": k}, func(b *B) {
			r := c.Rand("c15ov", k)
			for i := 0; i < 1500; i++ {
				np := 1 + r.IntN(3)
				var params [][]wire.Cap
				total := 0
				for p := 0; p < np; p++ {
					caps := gen.RandCaps(r, r.Uint32(), r.IntN(2) == 0)
					sz := 2
					for _, cp := range caps {
						sz += 2 + len(cp.Value)
					}
					if total+sz > 255 {
						break
					}
					total += sz
					params = append(params, caps)
				}
				if len(params) == 0 {
					params = [][]wire.Cap{{wire.FourOctetAS(1)}}
				}
				checkOpenValue(b, uint8(r.IntN(256)), uint16(r.Uint32()), uint16(r.Uint32()), r.Uint32(), params)
				if b.sample == nil && i == 5 {
					b.sample = fmt.Sprint(params)
				}
			}
		})
	}
	// every total size of the optional parameters, 4..255 octets, in one and in two
	// parameters, in both directions (the largest representable OPEN included)
	batch("opentotals", 0, map[string]any{"space": "optional parameters totalling 4..255 octets, one and two parameters"}, func(b *B) {
		r := c.Rand("c15tot", 0)
		for total := 4; total <= 255; total++ {
			one := [][]wire.Cap{{{Code: uint8(r.IntN(256)), Value: randB(r, total-4)}}}
			checkOpenValue(b, 4, uint16(r.Uint32()), uint16(r.Uint32()), r.Uint32(), one)
			checkOpenBytes(b, wire.OpenBodyRaw(4, 65002, 90, 1, total, wire.CapParam(one[0]...).Bytes()))
			if total >= 12 {
				two := [][]wire.Cap{{wire.FourOctetAS(r.Uint32())}, {{Code: uint8(r.IntN(256)), Value: randB(r, total-12)}}}
				checkOpenValue(b, 4, uint16(r.Uint32()), uint16(r.Uint32()), r.Uint32(), two)
				raw := append(wire.CapParam(two[0]...).Bytes(), wire.CapParam(two[1]...).Bytes()...)
				checkOpenBytes(b, wire.OpenBodyRaw(4, 65002, 90, 1, total, raw))
			}
			b.Sig("total", total>>3)
		}
	})
	// add-path tuples and MP capability
	batch("addpath", 0, map[string]any{"space": "AFI boundary x SAFI 0..255 x send/receive 0..255; lists up to 63 tuples"}, func(b *B) {
		r := c.Rand("c15ap", 0)
		for _, afi := range []uint16{0, 1, 2, 255, 256, 25, 16388, 65535} {
			for safi := 0; safi < 256; safi++ {
				for dir := 0; dir < 256; dir++ {
					b.evals++
					raw := []byte{byte(afi >> 8), byte(afi), byte(safi), byte(dir)}
					var tp corebgp.AddPathTuple
					err := tp.Decode(raw)
					if dir >= 1 && dir <= 3 {
						if err != nil || tp.AFI != afi || tp.SAFI != uint8(safi) || tp.Tx != (dir&2 != 0) || tp.Rx != (dir&1 != 0) || !bytes.Equal(tp.Encode(), raw) {
							b.Violate("", fmt.Sprintf("add-path tuple %x does not round-trip per RFC 7911 (got %+v err=%v enc=%x)", raw, tp, err, tp.Encode()), nil)
						}
					} else if err == nil {
						b.Violate("", fmt.Sprintf("add-path tuple %x with send/receive %d accepted", raw, dir), nil)
					}
				}
				b.Sig("tuple", afi, safi>>5)
				// MP capability layout
				mp := corebgp.NewMPExtensionsCapability(afi, uint8(safi))
				if mp.Code != 1 || !bytes.Equal(mp.Value, []byte{byte(afi >> 8), byte(afi), 0, byte(safi)}) {
					b.Violate("", fmt.Sprintf("NewMPExtensionsCapability(%d,%d) = %d:%x, want 1:AFI,0,SAFI", afi, safi, mp.Code, mp.Value), nil)
				}
			}
		}
		for n := 0; n <= 63; n++ {
			for rep := 0; rep < 20; rep++ {
				b.evals++
				var ts []corebgp.AddPathTuple
				var raw []byte
				for i := 0; i < n; i++ {
					d := 1 + r.IntN(3)
					tp := corebgp.AddPathTuple{AFI: uint16(r.Uint32()), SAFI: uint8(r.Uint32()), Tx: d&2 != 0, Rx: d&1 != 0}
					ts = append(ts, tp)
					raw = append(raw, byte(tp.AFI>>8), byte(tp.AFI), tp.SAFI, byte(d))
				}
				cp := corebgp.NewAddPathCapability(ts)
				if cp.Code != 69 || !bytes.Equal(cp.Value, raw) {
					b.Violate("", fmt.Sprintf("NewAddPathCapability value %x, want %x", cp.Value, raw), nil)
				}
				// Capability.Equal is equality of code and value octets
				same := corebgp.Capability{Code: cp.Code, Value: append([]byte{}, raw...)}
				diffCode := corebgp.Capability{Code: cp.Code + 1, Value: raw}
				if !cp.Equal(same) || !same.Equal(cp) || cp.Equal(diffCode) {
					b.Violate("", fmt.Sprintf("Capability.Equal disagrees with equality of code and value for %d:%x", cp.Code, raw), nil)
				}
				if n > 0 {
					flip := append([]byte{}, raw...)
					flip[r.IntN(len(flip))] ^= 1 << r.IntN(8)
					if cp.Equal(corebgp.Capability{Code: cp.Code, Value: flip}) || cp.Equal(corebgp.Capability{Code: cp.Code, Value: raw[:len(raw)-1]}) {
						b.Violate("", fmt.Sprintf("Capability.Equal reports capabilities with different values equal (%x)", raw), nil)
					}
				}
				got, err := corebgp.DecodeAddPathTuples(raw)
				if n == 0 {
					if err == nil {
						b.Violate("", "DecodeAddPathTuples accepted an empty value", nil)
					}
					continue
				}
				if err != nil || len(got) != n {
					b.Violate("", fmt.Sprintf("DecodeAddPathTuples(%x) = %v, %v", raw, got, err), nil)
					continue
				}
				for i := range got {
					if got[i] != ts[i] {
						b.Violate("", fmt.Sprintf("DecodeAddPathTuples tuple %d = %+v, want %+v", i, got[i], ts[i]), nil)
					}
				}
				// truncations and an invalid direction anywhere
				for cut := 1; cut < len(raw); cut++ {
					if cut%4 != 0 {
						if _, err := corebgp.DecodeAddPathTuples(raw[:cut]); err == nil {
							b.Violate("", fmt.Sprintf("DecodeAddPathTuples accepted a %d-byte value", cut), nil)
						}
					}
				}
				bad := append([]byte{}, raw...)
				bad[4*r.IntN(n)+3] = []byte{0, 4, 255}[r.IntN(3)]
				if _, err := corebgp.DecodeAddPathTuples(bad); err == nil {
					b.Violate("", fmt.Sprintf("DecodeAddPathTuples accepted an invalid send/receive value in %x", bad), nil)
				}
			}
		}
	})
}
