package codec

import (
	"errors"
	"fmt"
	"math/rand/v2"
	"net/netip"
	"testing"

	"github.com/jwhited/corebgp"

	"verif/internal/gen"
	"verif/internal/ref"
	"verif/internal/rt"
)

// observed is the result of a real attribute decoder in the normal form of
// ref.AttrVerdict.
type observed struct {
	err error
	v   ref.AttrVerdict
}

func addrBytes(a netip.Addr) []byte {
	if !a.IsValid() {
		return nil
	}
	return a.AsSlice()
}

func decodeReal(code uint8, flags uint8, b []byte) observed {
	f := corebgp.PathAttrFlags(flags)
	var o observed
	switch code {
	case 1:
		var x corebgp.OriginPathAttr
		if o.err = x.Decode(f, b); o.err == nil {
			o.v.U32s = []uint32{uint32(x)}
		}
	case 2:
		var x corebgp.ASPathAttr
		if o.err = x.Decode(f, b); o.err == nil {
			o.v.Seq, o.v.Set = x.ASSequence, x.ASSet
		}
	case 3:
		var x corebgp.NextHopPathAttr
		if o.err = x.Decode(f, b); o.err == nil {
			o.v.Addrs = [][]byte{addrBytes(netip.Addr(x))}
		}
	case 4:
		var x corebgp.MEDPathAttr
		if o.err = x.Decode(f, b); o.err == nil {
			o.v.U32s = []uint32{uint32(x)}
		}
	case 5:
		var x corebgp.LocalPrefPathAttr
		if o.err = x.Decode(f, b); o.err == nil {
			o.v.U32s = []uint32{uint32(x)}
		}
	case 6:
		var x corebgp.AtomicAggregatePathAttr
		if o.err = x.Decode(f, b); o.err == nil && !bool(x) {
			o.v.U32s = []uint32{0xdead} // decoded value must be true
		}
	case 7:
		var x corebgp.AggregatorPathAttr
		if o.err = x.Decode(f, b); o.err == nil {
			o.v.U32s = []uint32{x.AS}
			o.v.Addrs = [][]byte{addrBytes(x.IP)}
		}
	case 8:
		var x corebgp.CommunitiesPathAttr
		if o.err = x.Decode(f, b); o.err == nil {
			o.v.U32s = []uint32(x)
		}
	case 9:
		var x corebgp.OriginatorIDPathAttr
		if o.err = x.Decode(f, b); o.err == nil {
			o.v.Addrs = [][]byte{addrBytes(netip.Addr(x))}
		}
	case 10:
		var x corebgp.ClusterListPathAttr
		if o.err = x.Decode(f, b); o.err == nil {
			for _, a := range x {
				o.v.Addrs = append(o.v.Addrs, addrBytes(a))
			}
		}
	case 32:
		var x corebgp.LargeCommunitiesPathAttr
		if o.err = x.Decode(f, b); o.err == nil {
			for _, lc := range x {
				o.v.U32s = append(o.v.U32s, lc.GlobalAdmin, lc.LocalData1, lc.LocalData2)
			}
		}
	}
	o.v.OK = o.err == nil
	return o
}

func eqU32(a, b []uint32) bool {
	if len(a) != len(b) {
		return false
	}
	for i := range a {
		if a[i] != b[i] {
			return false
		}
	}
	return true
}

func eqAddrs(a, b [][]byte) bool {
	if len(a) != len(b) {
		return false
	}
	for i := range a {
		if string(a[i]) != string(b[i]) {
			return false
		}
	}
	return true
}

// agrees compares an observation with a reference verdict; why is empty when
// they agree.
func agrees(o observed, want ref.AttrVerdict) (why string) {
	if want.OK {
		if o.err != nil {
			return fmt.Sprintf("well-formed attribute rejected: %v", o.err)
		}
		if !eqU32(o.v.U32s, want.U32s) || !eqAddrs(o.v.Addrs, want.Addrs) || !eqU32(o.v.Seq, want.Seq) || !eqU32(o.v.Set, want.Set) {
			return fmt.Sprintf("decoded value differs from the encoded one: got u32=%v addrs=%x seq=%v set=%v want u32=%v addrs=%x seq=%v set=%v",
				o.v.U32s, o.v.Addrs, o.v.Seq, o.v.Set, want.U32s, want.Addrs, want.Seq, want.Set)
		}
		return ""
	}
	if o.err == nil {
		return "malformed attribute accepted"
	}
	var taw *corebgp.TreatAsWithdrawUpdateErr
	var ad *corebgp.AttrDiscardUpdateErr
	var n *corebgp.Notification
	class := ref.ClassOther
	switch {
	case errors.As(o.err, &taw):
		class, n = ref.ClassWithdraw, taw.Notification
	case errors.As(o.err, &ad):
		class, n = ref.ClassDiscard, ad.Notification
	}
	if class != want.Class {
		return fmt.Sprintf("error approach is %s, RFC 7606 assigns %s", classNames[class], classNames[want.Class])
	}
	if n == nil {
		return "no fallback NOTIFICATION attached to the error"
	}
	if n.Code != 3 {
		return fmt.Sprintf("fallback NOTIFICATION code %d is not UPDATE Message Error", n.Code)
	}
	for _, s := range want.Subcodes {
		if n.Subcode == s {
			return ""
		}
	}
	return fmt.Sprintf("fallback NOTIFICATION subcode %d, RFC 4271 prescribes one of %v", n.Subcode, want.Subcodes)
}

func checkAttr(b *B, rule ref.AttrRule, flags uint8, val []byte) {
	b.evals++
	want := ref.DecodeAttr(rule, flags, val)
	b.Guard(func() any { return map[string]any{"attr": rule.Name, "flags": flags, "value": hx(val)} }, func() {
		o := decodeReal(rule.Code, flags, val)
		why := agrees(o, want)
		if why == "" {
			return
		}
		finding := ""
		if rule.Code == 6 {
			// known finding: the decoder treats ATOMIC_AGGREGATE as optional
			// transitive. The disagreement is attributed to it only when the
			// observation matches the reference with that single expectation
			// inverted.
			alt := rule
			alt.Optional = true
			if agrees(o, ref.DecodeAttr(alt, flags, val)) == "" {
				finding = "atomic-aggregate-optional-bit"
			}
		}
		b.Violate(finding, fmt.Sprintf("%s decoder, flags %#02x, value %s: %s", rule.Name, flags, hx(val), why),
			map[string]any{"attr": rule.Name, "code": rule.Code, "flags": flags, "value": hx(val), "returned": fmt.Sprint(o.err), "reference_ok": want.OK})
	})
	b.Sig(rule.Code, flags>>6, want.OK, want.Class, len(want.Subcodes), lenClass(len(val)))
}

func asPathValue(r *rand.Rand) []byte {
	var b []byte
	for s := 1 + r.IntN(6); s > 0; s-- {
		n := 1 + r.IntN(5)
		switch r.IntN(20) {
		case 0:
			n = 255
		case 1:
			n = 0 // a segment without AS numbers, in any position
		}
		b = append(b, byte(1+r.IntN(2)), byte(n))
		for i := 0; i < 4*n; i++ {
			b = append(b, byte(r.Uint32()))
		}
	}
	return b
}

func TestC18(t *testing.T) {
	c := rt.Get()
	bi := 0
	for _, rule := range ref.AttrTable {
		rule := rule
		// exhaustive: all 256 flag octets x all values of length 0..1 (quick) / 0..2 (thorough)
		for hi := 0; hi < 256; hi += 16 {
			hi := hi
			batch("short", bi, map[string]any{"attr": rule.Name, "flags_from": hi, "value_len": c.N(1, 2)}, func(b *B) {
				for fl := hi; fl < hi+16; fl++ {
					checkAttr(b, rule, uint8(fl), nil)
					for x := 0; x < 256; x++ {
						checkAttr(b, rule, uint8(fl), []byte{byte(x)})
					}
					if c.Thorough() {
						for x := 0; x < 65536; x++ {
							checkAttr(b, rule, uint8(fl), []byte{byte(x >> 8), byte(x)})
						}
					}
				}
				b.sample = map[string]any{"attr": rule.Name, "flags": hi, "value": "00"}
			})
			bi++
		}
	}
	// boundary lengths and random values, all flag octets
	lens := []int{0, 1, 2, 3, 4, 5, 6, 7, 8, 9, 11, 12, 13, 16, 20, 23, 24, 25, 36, 254, 255, 256, 257, 1020, 4092, 4096}
	nb := c.N(400, 6000)
	for k := 0; k < nb; k++ {
		batch("lengths", k, map[string]any{"batch": k}, func(b *B) {
			r := c.Rand("c18len", k)
			for i := 0; i < 3000; i++ {
				rule := ref.AttrTable[r.IntN(len(ref.AttrTable))]
				l := lens[r.IntN(len(lens))]
				val := make([]byte, l)
				for j := range val {
					val[j] = byte(r.Uint32())
				}
				if rule.Code == 1 && l == 1 {
					val[0] = byte(r.IntN(5))
				}
				fl := uint8(r.Uint32())
				if r.IntN(2) == 0 { // correct flags half of the time so value rules are reached
					fl = fl &^ 0xc0
					if rule.Optional {
						fl |= 0x80
					}
					if rule.Transitive {
						fl |= 0x40
					}
				}
				checkAttr(b, rule, fl, val)
			}
		})
	}
	// AS_PATH: grammar-generated segment lists and their mutations
	asRule := ref.AttrTable[1]
	na := c.N(400, 6000)
	for k := 0; k < na; k++ {
		batch("aspath", k, map[string]any{"batch": k}, func(b *B) {
			r := c.Rand("c18as", k)
			for i := 0; i < 1500; i++ {
				val := asPathValue(r)
				switch r.IntN(4) {
				case 0:
					for m := 1 + r.IntN(2); m > 0; m-- {
						val = gen.Mutate(r, val)
					}
				case 1:
					val = val[:r.IntN(len(val)+1)]
				}
				fl := uint8(0x40)
				if r.IntN(8) == 0 {
					fl = uint8(r.Uint32())
				}
				checkAttr(b, asRule, fl, val)
				if b.sample == nil && len(val) < 40 {
					b.sample = map[string]any{"attr": "AS_PATH", "flags": fl, "value": hx(val)}
				}
			}
		})
	}
	// flag accessors and Validate: exhaustive
	batch("flags", 0, map[string]any{"space": "256 flag octets x 4 expectations"}, func(b *B) {
		for fl := 0; fl < 256; fl++ {
			f := corebgp.PathAttrFlags(fl)
			b.evals++
			if f.Optional() != (fl&0x80 != 0) || f.Transitive() != (fl&0x40 != 0) || f.Partial() != (fl&0x20 != 0) || f.ExtendedLen() != (fl&0x10 != 0) {
				b.Violate("", fmt.Sprintf("flag accessors of %#02x do not report the four high bits", fl), nil)
			}
			for w := 0; w < 4; w++ {
				wo, wt := w&2 != 0, w&1 != 0
				err := f.Validate(77, []byte{1, 2, 3}, wo, wt)
				bad := (fl&0x80 != 0) != wo || (fl&0x40 != 0) != wt
				var taw *corebgp.TreatAsWithdrawUpdateErr
				switch {
				case bad && err == nil:
					b.Violate("", fmt.Sprintf("Validate accepted flags %#02x for (optional=%v, transitive=%v)", fl, wo, wt), nil)
				case !bad && err != nil:
					b.Violate("", fmt.Sprintf("Validate rejected flags %#02x for (optional=%v, transitive=%v)", fl, wo, wt), nil)
				case bad && (!errors.As(err, &taw) || taw.Notification == nil || taw.Notification.Code != 3 || taw.Notification.Subcode != 4):
					b.Violate("", fmt.Sprintf("Validate(%#02x) did not return treat-as-withdraw with fallback (3,4)", fl), nil)
				}
				b.Sig(fl>>4, w)
			}
		}
	})
}
