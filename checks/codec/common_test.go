package codec

import (
	"encoding/hex"
	"fmt"
	"runtime/debug"
	"sort"

	"verif/internal/rt"
)

// B accumulates the evaluations of one batch case.
type B struct {
	evals   int
	sigs    map[string]bool
	viols   []rt.Violation
	nviol   int
	sample  any
	events  map[string]int
	current func() any // describes the input being evaluated (for panics)
}

func (b *B) Sig(parts ...any) {
	if len(b.sigs) < 4096 {
		b.sigs[rt.Hash(parts...)] = true
	}
}

func (b *B) Event(name string) { b.events[name]++ }

func (b *B) Violate(finding, why string, witness any) {
	b.nviol++
	// keep one witness per distinct finding key / first few unexplained ones
	if finding != "" {
		for _, v := range b.viols {
			if v.Finding == finding {
				return
			}
		}
	} else if b.nviol > 8 {
		return
	}
	b.viols = append(b.viols, rt.Violation{Why: why, Finding: finding, Witness: witness})
}

// Guard runs f and turns a panic into a violation carrying the input.
func (b *B) Guard(input func() any, f func()) {
	defer func() {
		if r := recover(); r != nil {
			b.Violate("", fmt.Sprintf("panic: %v", r), map[string]any{"input": input(), "stack": string(debug.Stack())})
		}
	}()
	f()
}

// batch runs one batch case of a family.
func batch(family string, idx int, params any, fn func(b *B)) {
	c := rt.Get()
	if !c.Mine(family, idx) {
		return
	}
	c.Start(family, idx, params)
	b := &B{sigs: map[string]bool{}, events: map[string]int{}}
	func() {
		defer func() {
			if r := recover(); r != nil {
				b.Violate("", fmt.Sprintf("panic outside a guarded call: %v", r), map[string]any{"stack": string(debug.Stack())})
			}
		}()
		fn(b)
	}()
	res := rt.Result{Verdict: "held", Nontrivial: true, Evals: b.evals, Events: b.events, Sample: b.sample}
	for s := range b.sigs {
		res.Sigs = append(res.Sigs, s)
	}
	sort.Strings(res.Sigs)
	if len(b.viols) > 0 {
		res.Verdict = "violated"
		res.Why = b.viols[0].Why
		res.Finding = b.viols[0].Finding
		res.Witness = b.viols[0].Witness
		res.More = b.viols[1:]
		if b.nviol > len(b.viols) {
			res.Events["violations_not_written"] = b.nviol - len(b.viols)
		}
	}
	c.End(family, idx, res)
}

func hx(b []byte) string {
	if len(b) > 600 {
		return fmt.Sprintf("%s...(%d bytes total)...%s", hex.EncodeToString(b[:300]), len(b), hex.EncodeToString(b[len(b)-64:]))
	}
	return hex.EncodeToString(b)
}

func lenClass(n int) string {
	switch {
	case n == 0:
		return "0"
	case n < 4:
		return "<4"
	case n < 32:
		return "<32"
	case n < 256:
		return "<256"
	case n <= 4077:
		return "<=4077"
	case n <= 65535:
		return "<=65535"
	}
	return ">65535"
}
