package fsm

import (
	"errors"
	"fmt"
	"math/rand/v2"
	"runtime"
	"sort"
	"strings"
	"sync"
	"sync/atomic"
	"testing"
	"time"

	"github.com/jwhited/corebgp"

	"verif/internal/hz"
	"verif/internal/rt"
	"verif/internal/wire"
)

// C10: shutdown from any state is prompt, complete and leak-free (the
// race-freedom clause is decided by the -race pass in c10race_test.go).

type c10Ctx struct {
	w       *hz.World
	ps      hz.PeerSpec
	mon     *hz.PeerMon
	in, out *hz.RConn // written by the script (possibly its own goroutine): see conns()
	stopW   atomic.Bool
	wg      sync.WaitGroup
}

type c10Script struct {
	name  string
	setup func(x *c10Ctx)
	steps []func(x *c10Ctx)
}

func (x *c10Ctx) open(c *hz.RConn) {
	if c != nil {
		c.SendOpen(c.StdOpen(x.ps.RemoteAS, 90, remoteIDu))
	}
}

func c10AcceptFirst(x *c10Ctx, lat time.Duration) {
	first := true
	x.w.DialPolicy = func(hz.DialReq) (hz.DialAction, time.Duration) {
		if first {
			first = false
			return hz.DialAccept, lat
		}
		return hz.DialRefuse, 0
	}
}

func c10Writers(x *c10Ctx) {
	x.ps.Cfg.OnEst = func(s *hz.Session) {
		for k := 0; k < 4; k++ {
			x.wg.Add(1)
			go func(k int) {
				defer x.wg.Done()
				r := rand.New(rand.NewPCG(uint64(k), 5))
				for i := 0; i < 5000 && !x.stopW.Load(); i++ {
					if s.Writer.WriteUpdate(make([]byte, 4+r.IntN(64))) != nil {
						return
					}
					time.Sleep(time.Duration(r.IntN(3000)))
				}
			}(k)
		}
	}
}

var c10Scripts = []c10Script{
	{name: "inbound-passive", setup: func(x *c10Ctx) { x.ps.Passive = true }, steps: []func(*c10Ctx){
		func(x *c10Ctx) {},
		func(x *c10Ctx) { x.in = x.w.Connect(x.ps.Addr) },
		func(x *c10Ctx) { x.open(x.in) },
		func(x *c10Ctx) { x.in.SendKeepalive() },
		func(x *c10Ctx) { x.in.SendUpdate(updBody(1, 0)) },
	}},
	{name: "inbound-active", setup: func(x *c10Ctx) {}, steps: []func(*c10Ctx){
		func(x *c10Ctx) { x.in = x.w.Connect(x.ps.Addr) },
		func(x *c10Ctx) { x.open(x.in) },
		func(x *c10Ctx) { x.in.SendKeepalive() },
	}},
	{name: "outbound", setup: func(x *c10Ctx) { c10AcceptFirst(x, 0) }, steps: []func(*c10Ctx){
		func(x *c10Ctx) { x.out = x.w.WaitOut(1, time.Second) },
		func(x *c10Ctx) { x.open(x.out) },
		func(x *c10Ctx) { x.out.SendKeepalive() },
		func(x *c10Ctx) { x.out.SendUpdate(updBody(1, 0)) },
	}},
	{name: "outbound-slow-dial", setup: func(x *c10Ctx) { c10AcceptFirst(x, 300*time.Nanosecond) }, steps: []func(*c10Ctx){
		func(x *c10Ctx) {},
		func(x *c10Ctx) { x.out = x.w.WaitOut(1, time.Second) },
		func(x *c10Ctx) { x.open(x.out) },
	}},
	{name: "collision", setup: func(x *c10Ctx) { c10AcceptFirst(x, 0) }, steps: []func(*c10Ctx){
		func(x *c10Ctx) { x.out = x.w.WaitOut(1, time.Second); x.in = x.w.Connect(x.ps.Addr) },
		func(x *c10Ctx) { x.open(x.out) },
		func(x *c10Ctx) { x.open(x.in) },
		func(x *c10Ctx) { x.in.SendKeepalive(); x.out.SendKeepalive() },
	}},
	{name: "collision-simul", setup: func(x *c10Ctx) { c10AcceptFirst(x, 0) }, steps: []func(*c10Ctx){
		func(x *c10Ctx) { x.out = x.w.WaitOut(1, time.Second); x.in = x.w.Connect(x.ps.Addr) },
		func(x *c10Ctx) { x.open(x.in); x.open(x.out) },
		func(x *c10Ctx) { x.out.SendKeepalive(); x.in.SendKeepalive() },
	}},
	{name: "refused", setup: func(x *c10Ctx) {}, steps: []func(*c10Ctx){
		func(x *c10Ctx) {},
		func(x *c10Ctx) { time.Sleep(2500 * time.Millisecond) },
		func(x *c10Ctx) { time.Sleep(2500 * time.Millisecond) },
	}},
	{name: "stalled", setup: func(x *c10Ctx) {
		x.w.DialPolicy = func(hz.DialReq) (hz.DialAction, time.Duration) { return hz.DialStall, 0 }
	}, steps: []func(*c10Ctx){
		func(x *c10Ctx) {},
		func(x *c10Ctx) { time.Sleep(time.Second) },
		func(x *c10Ctx) { time.Sleep(4 * time.Second) }, // connect-retry (5 s) fires: cancel + redial
		func(x *c10Ctx) { time.Sleep(time.Second) },
	}},
	{name: "dial-at-retry", setup: func(x *c10Ctx) {
		// the outbound connection completes at the very instant the connect-retry timer fires
		x.ps.ConnectRetry = time.Second
		c10AcceptFirst(x, time.Second)
	}, steps: []func(*c10Ctx){
		func(x *c10Ctx) { time.Sleep(999 * time.Millisecond) },
		func(x *c10Ctx) { time.Sleep(2 * time.Millisecond) },
		func(x *c10Ctx) { x.out = x.w.WaitOut(1, time.Second); x.open(x.out) },
	}},
	{name: "refuse-at-retry", setup: func(x *c10Ctx) {
		// every dial fails at the very instant the connect-retry timer fires
		x.ps.ConnectRetry = time.Second
		x.w.DialPolicy = func(hz.DialReq) (hz.DialAction, time.Duration) { return hz.DialRefuse, time.Second }
	}, steps: []func(*c10Ctx){
		func(x *c10Ctx) { time.Sleep(999 * time.Millisecond) },
		func(x *c10Ctx) { time.Sleep(2 * time.Millisecond) },
		func(x *c10Ctx) { time.Sleep(time.Second) },
	}},
	{name: "damped", setup: func(x *c10Ctx) {}, steps: []func(*c10Ctx){
		func(x *c10Ctx) { x.in = x.w.Connect(x.ps.Addr) },
		func(x *c10Ctx) { x.in.SendNotification(2, 2, nil) },
		func(x *c10Ctx) { time.Sleep(30 * time.Second) },
		func(x *c10Ctx) { time.Sleep(30*time.Second + time.Millisecond) }, // hold-down just ended: redial
	}},
	{name: "writers", setup: func(x *c10Ctx) { x.ps.Passive = true; c10Writers(x) }, steps: []func(*c10Ctx){
		func(x *c10Ctx) { x.in = x.w.Connect(x.ps.Addr); x.in.Handshake(x.ps.RemoteAS, 90, remoteIDu) },
		func(x *c10Ctx) { time.Sleep(50 * time.Microsecond) },
		func(x *c10Ctx) { time.Sleep(3 * time.Millisecond) },
	}},
	{name: "writers-out", setup: func(x *c10Ctx) { c10AcceptFirst(x, 0); c10Writers(x) }, steps: []func(*c10Ctx){
		func(x *c10Ctx) { x.out = x.w.WaitOut(1, time.Second); x.out.Handshake(x.ps.RemoteAS, 90, remoteIDu) },
		func(x *c10Ctx) { time.Sleep(50 * time.Microsecond) },
	}},
	{name: "active-wait", setup: func(x *c10Ctx) { c10AcceptFirst(x, 0) }, steps: []func(*c10Ctx){
		func(x *c10Ctx) { x.out = x.w.WaitOut(1, time.Second) },
		func(x *c10Ctx) { x.out.Close() }, // OpenSent TCP failure -> Active, waiting for connect-retry
		func(x *c10Ctx) { time.Sleep(2 * time.Second) },
		func(x *c10Ctx) { time.Sleep(3500 * time.Millisecond) }, // connect-retry fired: Connect again
	}},
	{name: "remote-closed", setup: func(x *c10Ctx) { x.ps.Passive = true }, steps: []func(*c10Ctx){
		func(x *c10Ctx) { x.in = x.w.Connect(x.ps.Addr); x.in.Handshake(x.ps.RemoteAS, 90, remoteIDu) },
		func(x *c10Ctx) { x.in.Close() },
	}},
	{name: "open-write-fails", setup: func(x *c10Ctx) {
		// the first outbound connection is reset by the remote before the OPEN is written;
		// the same fsm object then makes a second connection
		x.ps.IdleHold = time.Second
		n := 0
		x.w.DialPolicy = func(hz.DialReq) (hz.DialAction, time.Duration) {
			n++
			switch n {
			case 1:
				return hz.DialAcceptBroken, 0
			case 2:
				return hz.DialAccept, 0
			}
			return hz.DialRefuse, 0
		}
	}, steps: []func(*c10Ctx){
		func(x *c10Ctx) { x.w.WaitOut(1, time.Second) },
		func(x *c10Ctx) { x.out = x.w.WaitOut(2, 3*time.Second) },
		func(x *c10Ctx) { x.open(x.out) },
		func(x *c10Ctx) {
			if x.out != nil {
				x.out.SendKeepalive()
			}
		},
	}},
	{name: "handler-writes", setup: func(x *c10Ctx) {
		// the update handler takes a few microseconds and then answers with WriteUpdate: a
		// stop issued meanwhile has to wait for it, and the write must return
		x.ps.Passive = true
		x.ps.Cfg.OnUpdate = func(s *hz.Session, _ int, _ []byte) *corebgp.Notification {
			time.Sleep(3 * time.Microsecond)
			s.Writer.WriteUpdate([]byte{0, 0, 0, 0})
			return nil
		}
	}, steps: []func(*c10Ctx){
		func(x *c10Ctx) { x.in = x.w.Connect(x.ps.Addr); x.in.Handshake(x.ps.RemoteAS, 90, remoteIDu) },
		func(x *c10Ctx) { x.in.SendUpdate(updBody(1, 0)) },
		func(x *c10Ctx) { x.in.SendUpdate(updBody(1, 1)); x.in.SendUpdate(updBody(1, 2)) },
	}},
	{name: "partial-update", setup: func(x *c10Ctx) { x.ps.Passive = true }, steps: []func(*c10Ctx){
		func(x *c10Ctx) { x.in = x.w.Connect(x.ps.Addr); x.in.Handshake(x.ps.RemoteAS, 90, remoteIDu) },
		func(x *c10Ctx) { x.in.Send(wire.Update(make([]byte, 100))[:29]) }, // a header and part of its body
		func(x *c10Ctx) { time.Sleep(time.Millisecond) },
	}},
	{name: "partial-open", setup: func(x *c10Ctx) { x.ps.Passive = true }, steps: []func(*c10Ctx){
		func(x *c10Ctx) { x.in = x.w.Connect(x.ps.Addr) },
		func(x *c10Ctx) {
			x.in.Send(wire.Msg(wire.TypeOpen, x.in.StdOpen(x.ps.RemoteAS, 90, remoteIDu).Body())[:25])
		},
		func(x *c10Ctx) { time.Sleep(time.Millisecond) },
	}},
	{name: "hold-zero", setup: func(x *c10Ctx) { x.ps.Passive = true; x.ps.Hold = 0 }, steps: []func(*c10Ctx){
		func(x *c10Ctx) { x.in = x.w.Connect(x.ps.Addr) },
		func(x *c10Ctx) { x.open(x.in) },
		func(x *c10Ctx) { x.in.SendKeepalive() },
		func(x *c10Ctx) { time.Sleep(5 * time.Minute) },
	}},
}

type c10Params struct {
	Script string
	Stop   string // Close | DeletePeer
	Step   int    // quiesced stop after this step (-1: timed stop)
	AtNS   int64  // timed stop at this virtual instant
	Seed   uint64
	Hook   int
}

func c10Find(name string) c10Script {
	for _, s := range c10Scripts {
		if s.name == name {
			return s
		}
	}
	panic("no script " + name)
}

var c10FixedDelays = map[string]time.Duration{"dial.done": 20 * time.Nanosecond}

// c10World runs a script and stops the server/peer; when instants != nil the
// run is a dry run that only collects the instants at which something happened.
func c10World(t *testing.T, p c10Params, instants *[]int64) rt.Result {
	sc := c10Find(p.Script)
	ceaseChecked := 0
	extra := 0
	if p.Stop == "ListenerFail" && mix(p.Seed)%2 == 1 {
		extra = 2 // three listeners: all failing at the same instant, or (Seed%4 == 3) only the first
	}
	closeDelay := time.Duration(0)
	if p.Step >= 0 && mix(p.Seed)%4 == 1 {
		// quiesced stops only (nothing contends for Server.mu): closing a connection takes
		// 100 us, so a stop that returns before its connections are closed is seen
		closeDelay = 100 * time.Microsecond
	}
	lisDelay := time.Duration(0)
	if p.Stop == "CloseTwice" {
		lisDelay = 300 * time.Microsecond // Serve takes that long to close its listener
	}
	closeYields := 0
	if p.Step < 0 && mix(p.Seed)%2 == 1 {
		closeYields = 40 // timed stops: a close that is slow without letting virtual time pass
	}
	out := hz.Run(t, hz.Opts{Seed: p.Seed, HookMode: p.Hook, HookDelays: c10FixedDelays, ExtraListeners: extra, CloseDelay: closeDelay, CloseYields: closeYields, LisCloseDelay: lisDelay}, func(w *hz.World) {
		x := &c10Ctx{w: w, ps: hz.StdPeer("10.0.1.1")}
		x.ps.Hold = 90
		sc.setup(x)
		x.mon = w.MustAddPeer(x.ps)
		desc := fmt.Sprintf("[script %s, %s", p.Script, p.Stop)
		quiesced := p.Step >= 0
		var scriptDone chan struct{}
		if quiesced {
			for k := 0; k <= p.Step && k < len(sc.steps); k++ {
				sc.steps[k](x)
				w.Settle()
			}
			desc += fmt.Sprintf(" after step %d (quiesced)]", p.Step)
		} else {
			r := rand.New(rand.NewPCG(p.Seed, 10))
			done := make(chan struct{})
			go func() {
				defer close(done)
				defer func() { recover() }() // steps may touch connections that never came to exist
				for _, st := range sc.steps {
					st(x)
					time.Sleep(time.Duration(r.IntN(2000)))
				}
			}()
			if instants != nil {
				<-done
				w.Settle()
				seen := map[int64]bool{}
				for _, e := range w.Log.Snapshot() {
					seen[int64(e.At)] = true
				}
				for k := range seen {
					*instants = append(*instants, k)
				}
				return
			}
			if d := time.Duration(p.AtNS) - w.Now(); d > 0 {
				time.Sleep(d)
			}
			desc += fmt.Sprintf(" at +%v]", time.Duration(p.AtNS))
			scriptDone = done
		}

		// what state is each connection in, according to the approved transitions?
		state := map[string]string{}
		for _, tr := range w.TransSnapshot() {
			state[tr.Dir] = tr.To
		}
		type exp struct {
			c    *hz.RConn
			dir  string
			want bool
		}
		var exps []exp
		// With the stop issued concurrently the same expectation holds for scripts in
		// which the remote only ever sends legal progress: a connection whose approved
		// state was already OpenSent or later stays in one of the three states until it
		// is stopped, whatever transition is in flight.
		benign := map[string]bool{"inbound-passive": true, "inbound-active": true, "outbound": true, "outbound-slow-dial": true,
			"collision": true, "collision-simul": true, "writers": true, "writers-out": true, "hold-zero": true, "partial-update": true, "partial-open": true, "handler-writes": true}
		if quiesced || benign[p.Script] {
			latest := map[string]*hz.RConn{}
			for _, c := range w.Conns() { // race-free view of the connections made so far
				if !c.Refused {
					latest[c.Dir] = c
				}
			}
			for dir, c := range latest {
				eof, _ := c.EOF()
				st := state[dir]
				exps = append(exps, exp{c, dir, !eof && !c.OwnClosed() && (st == "openSent" || st == "openConfirm" || st == "established")})
			}
		}
		wasUp := x.mon.Up()
		held := w.HeldPairsOf(x.ps.Addr) // connections corebgp has already used when the stop is issued
		before := w.Now()
		switch p.Stop {
		case "Close":
			w.Close()
		case "CloseTwice":
			// two overlapping Close calls, the second one issued while Serve is still closing
			// its listener: each of them returns only when everything is shut down
			var cwg sync.WaitGroup
			for k := 0; k < 2; k++ {
				cwg.Add(1)
				go func(k int) {
					defer cwg.Done()
					time.Sleep(time.Duration(k) * 100 * time.Microsecond)
					w.Srv.Close()
					if st := x.mon.State(); st != "Down" {
						w.Violate("%s Close call %d of two overlapping ones returned while the peer's session is %s (OnClose has not completed)", desc, k+1, st)
					}
					for _, c := range held {
						if c.Pair.Closed(0) == 0 {
							w.Violate("%s Close call %d of two overlapping ones returned while connection %d (%s) is still open on corebgp's side", desc, k+1, c.ID, c.Dir)
						}
					}
				}(k)
			}
			cwg.Wait()
			w.Close()
		case "ListenerFail":
			// the listener fails: Serve must stop every peer as on Close and return that error
			w.Lis.Fail(errors.New("injected accept failure"))
			for k, l := range w.Extra {
				if mix(p.Seed)%4 == 3 {
					break // the other listeners are fine: Serve closes them and joins their accept loops
				}
				l.Fail(fmt.Errorf("injected accept failure on extra listener %d", k))
			}
			for i := 0; i < 5; i++ {
				if ret, _ := w.ServeResult(); ret {
					break
				}
				w.Settle()
			}
			ret, err := w.ServeResult()
			if !ret {
				w.Violate("%s Serve did not return after its listener failed", desc)
			} else if err == nil || !strings.Contains(err.Error(), "injected accept failure") {
				w.Violate("%s Serve returned %v, want the listener error that stopped it", desc, err)
			}
			before = w.Now() // the time the return took is not judged for this stop kind
			if m := w.Mon(x.ps.Addr); m != nil {
				m.Seal("Serve (listener failure)")
			}
		default:
			if err := w.DeletePeer(x.ps.Addr); err != nil {
				w.Violate("%s DeletePeer returned %v", desc, err)
			}
		}
		for _, c := range held {
			// judged at the very return, also with a script running concurrently: these
			// connections were in corebgp's hands before the stop began
			if c.Pair.Closed(0) == 0 {
				w.Violate("%s connection %d (%s), which corebgp had already used when %s was called, is still open on corebgp's side at its return", desc, c.ID, c.Dir, p.Stop)
			}
		}
		took := w.Now() - before
		if took > time.Millisecond {
			w.Violate("%s %s took %v of virtual time: shutdown must not wait for a protocol timer", desc, p.Stop, took)
		}
		// at return: every connection of the peer is closed on corebgp's side.
		// With a concurrently running script a connection may be injected just
		// after the stop returned; it is then not one corebgp "holds", so the
		// accountant looks after a settle barrier (a leaked connection stays open).
		if !quiesced {
			if scriptDone != nil {
				<-scriptDone
				scriptDone = nil
			}
			w.Settle()
		}
		for _, c := range w.OpenPairsOf(x.ps.Addr) {
			w.Violate("%s connection %d (%s) still open on corebgp's side when %s returned", desc, c.ID, c.Dir, p.Stop)
		}
		if p.Stop == "Close" || p.Stop == "CloseTwice" {
			if ret, err := w.ServeResult(); !ret {
				w.Settle()
				if ret, err = w.ServeResult(); !ret || err != corebgp.ErrServerClosed {
					w.Violate("%s Serve returned=%v err=%v after Close", desc, ret, err)
				}
			} else if err != corebgp.ErrServerClosed {
				w.Violate("%s Serve returned %v, want ErrServerClosed", desc, err)
			}
		}
		if scriptDone != nil {
			<-scriptDone // let the remaining script steps run into the stopped server
		}
		w.Settle()
		for _, e := range exps {
			// judged on the whole history of the connection: corebgp sends no other
			// NOTIFICATION in these scripts, and a Cease written an instant before
			// the stop (collision loser) still counts
			ms := e.c.Msgs()
			ns := notifsOf(ms)
			if e.want {
				ceaseChecked++
				if len(ns) != 1 || ns[0].Code != 6 {
					w.Violate("%s the %s connection was in %s and open, but no Cease NOTIFICATION preceded the close: got [%s]", desc, e.dir, state[e.dir], typesOf(ms))
				}
			}
			if eof, _ := e.c.EOF(); !eof && !e.c.OwnClosed() {
				w.Violate("%s the %s connection was not closed", desc, e.dir)
			}
		}
		if wasUp {
			_, _, ss := x.mon.Snapshot()
			if len(ss) == 0 || ss[len(ss)-1].CloseExit < 0 {
				w.Violate("%s session was Established but OnClose was not delivered by the time %s returned", desc, p.Stop)
			}
		}
		x.stopW.Store(true)
		x.wg.Wait()
		w.Settle()
		if p.Stop == "DeletePeer" {
			if leaks := hz.CorebgpGoroutinesExceptServe(); len(leaks) > 0 {
				w.Violate("%s %d goroutine(s) created for the deleted peer are still running:\n%s", desc, len(leaks), leaks[0])
			}
			// the server keeps serving: a re-added peer works
			x.ps.Passive = true
			x.ps.Cfg.OnEst = nil
			m2 := w.MustAddPeer(x.ps)
			rc := w.Connect(x.ps.Addr)
			if !rc.Handshake(x.ps.RemoteAS, 90, remoteIDu) {
				w.Violate("%s a peer re-added after DeletePeer is not served: %s", desc, typesOf(rc.Msgs()))
			}
			w.Settle()
			if !m2.Up() {
				w.Violate("%s a peer re-added after DeletePeer does not establish", desc)
			}
		}
	})
	return worldResult(out, true, fmt.Sprintf("|%s %s %d", p.Script, p.Stop, p.Step), map[string]int{"stops": 1, "cease_expectations_checked": ceaseChecked})
}

// c10DeleteRace: an inbound connection and DeletePeer of its peer at the same
// instant, forty times per world. Whoever wins, DeletePeer returns, the
// connection ends up closed on corebgp's side, and the listener goes on serving.
func c10DeleteRace(t *testing.T, seed uint64) rt.Result {
	races, served := 0, 0
	out := hz.Run(t, hz.Opts{Seed: seed, HookMode: []int{hz.HookOff, hz.HookYield}[mix(seed)%2]}, func(w *hz.World) {
		r := rand.New(rand.NewPCG(seed, 1010))
		for round := 0; round < 40; round++ {
			ps := hz.StdPeer("10.0.1.1")
			ps.Passive = true
			w.MustAddPeer(ps)
			if r.IntN(3) == 0 { // sometimes the peer already has a connection in progress
				w.Connect(ps.Addr)
				w.Settle()
			}
			ya, yb := r.IntN(6), r.IntN(6)
			var rc *hz.RConn
			var wg sync.WaitGroup
			wg.Add(2)
			go func() {
				defer wg.Done()
				for k := 0; k < ya; k++ {
					runtime.Gosched()
				}
				rc = w.Connect(ps.Addr)
			}()
			go func() {
				defer wg.Done()
				for k := 0; k < yb; k++ {
					runtime.Gosched()
				}
				if err := w.DeletePeer(ps.Addr); err != nil {
					w.Violate("round %d: DeletePeer: %v", round, err)
				}
			}()
			wg.Wait()
			w.Settle()
			races++
			if len(rc.Msgs()) > 0 {
				served++
			}
			if rc.Pair.Closed(0) == 0 {
				w.Violate("round %d: a connection that arrived at the instant its peer was deleted is still open on corebgp's side after DeletePeer returned (it saw [%s])", round, typesOf(rc.Msgs()))
				return
			}
		}
		// the listener still serves
		ps := hz.StdPeer("10.0.1.1")
		ps.Passive = true
		mon := w.MustAddPeer(ps)
		rc := w.Connect(ps.Addr)
		if !rc.Handshake(ps.RemoteAS, 90, remoteIDu) {
			w.Violate("after %d delete/connect races the listener no longer serves the peer: [%s]", races, typesOf(rc.Msgs()))
			return
		}
		w.Settle()
		if !mon.Up() {
			w.Violate("after %d delete/connect races a session no longer establishes", races)
		}
	})
	return worldResult(out, races > 0, fmt.Sprintf("|deleterace %d", served*4/max(races, 1)), map[string]int{"delete_connect_races": races, "raced_connections_served": served})
}

func TestC10(t *testing.T) {
	c := rt.Get()
	for i := 0; i < c.N(300, 8000); i++ {
		seed := uint64(i)*2685821657736338717 + c.Seed
		runCase(t, "delete-race", i, map[string]any{"rounds": 40}, func(t *testing.T) rt.Result { return c10DeleteRace(t, seed) })
	}
	idx := 0
	seeds := c.N(12, 200)
	// (i) quiesced stops: every step of every script x stop kind x seeds
	for _, sc := range c10Scripts {
		for k := range sc.steps {
			for _, stop := range []string{"Close", "DeletePeer", "ListenerFail", "CloseTwice"} {
				for s := 0; s < seeds; s++ {
					p := c10Params{Script: sc.name, Stop: stop, Step: k, Seed: uint64(idx)*6364136223846793005 + c.Seed, Hook: hz.HookVSleep}
					if s%4 == 3 {
						p.Hook = hz.HookOff
					}
					i := idx
					runCase(t, "quiesced", i, p, func(t *testing.T) rt.Result { return c10World(t, p, nil) })
					idx++
				}
			}
		}
	}
	// (ii) nanosecond sweep: stop at every instant at which something happened in a dry run, +0/+1 ns and a seeded offset
	sweepSeeds := c.N(2, 24)
	sidx := 0
	for _, sc := range c10Scripts {
		for s := 0; s < sweepSeeds; s++ {
			seed := uint64(s)*1442695040888963407 + c.Seed + uint64(len(sc.name))
			var inst []int64
			dry := c10Params{Script: sc.name, Stop: "Close", Step: -1, Seed: seed, Hook: hz.HookVSleep}
			// the dry run is cheap and deterministic in the seed: every shard computes it
			t.Run("dry", func(t *testing.T) { c10World(t, dry, &inst) })
			sort.Slice(inst, func(a, b int) bool { return inst[a] < inst[b] })
			r := rand.New(rand.NewPCG(seed, 3))
			var pts []int64
			for _, ti := range inst {
				pts = append(pts, ti, ti+1, ti+2+r.Int64N(40), ti+r.Int64N(2000))
			}
			if len(pts) > 1200 {
				pts = pts[:1200]
			}
			for _, at := range pts {
				for _, stop := range []string{"Close", "DeletePeer"} {
					p := c10Params{Script: sc.name, Stop: stop, Step: -1, AtNS: at, Seed: seed, Hook: hz.HookVSleep}
					i := sidx
					runCase(t, "sweep", i, p, func(t *testing.T) rt.Result { return c10World(t, p, nil) })
					sidx++
				}
			}
		}
	}
	c.Info("sweep", map[string]any{"timed_stop_points": sidx, "scripts": len(c10Scripts)})
	_ = wire.Keepalive
}
