package fsm

import (
	"fmt"
	"net/netip"
	"testing"
	"time"

	"verif/internal/hz"
	"verif/internal/rt"
	"verif/internal/wire"
)

// C07: connection collision resolution per RFC 4271 §6.8 in every arrival order.

type c07Params struct {
	IDRel string // local id lt | gt | eq remote id
	ASRel string // local AS lt | gt remote AS (lt4 | gt4: both above 65535)
	Mode  string // ordered | simul | estfirst | race-ka | race-close | race-bad | race-est | race-new | oc-new
	First string // which connection's OPEN is sent first: out | in
	Late  bool   // the inbound connection arrives before the outbound dial completes
	Seed  uint64
	Hook  int
}

func c07World(t *testing.T, p c07Params) rt.Result {
	localID := netip.MustParseAddr("10.0.0.1")
	lid := uint32(localIDu)
	var rid uint32
	switch p.IDRel {
	case "lt":
		rid = lid + 0x100
	case "gt":
		rid = lid - 1
	case "far-lt": // identifiers more than 2^31 apart
		rid = 0xCB007109 // 203.0.113.9
	case "far-gt":
		localID, lid = netip.MustParseAddr("203.0.113.9"), 0xCB007109
		rid = 0x0a000001
	default:
		rid = lid
	}
	las, ras := uint32(65001), uint32(65002)
	switch p.ASRel {
	case "gt":
		ras = 65000
	case "lt4": // 4-octet AS numbers: the OPEN's 2-octet field carries AS_TRANS (23456), below both
		las, ras = 70000, 80000
	case "gt4":
		las, ras = 80000, 70000
	}
	dominant := lid > rid || (lid == rid && las > ras)
	survivor := "in"
	if dominant {
		survivor = "out"
	}
	outcome := ""
	out := hz.Run(t, hz.Opts{Seed: p.Seed, HookMode: p.Hook, LocalID: localID}, func(w *hz.World) {
		ps := hz.StdPeer("10.0.1.1")
		ps.LocalAS, ps.RemoteAS = las, ras
		ps.Hold = 90
		lat := time.Duration(0)
		if p.Late {
			lat = time.Millisecond
		}
		first := true
		w.DialPolicy = func(hz.DialReq) (hz.DialAction, time.Duration) {
			if first {
				first = false
				return hz.DialAccept, lat
			}
			return hz.DialRefuse, 0
		}
		if p.Mode == "race-new" || p.Mode == "oc-new" {
			lat = 5 * time.Millisecond
		}
		t0 := w.Now()
		mon := w.MustAddPeer(ps)
		var oc, ic *hz.RConn
		if p.Mode == "race-new" {
			// one connection completes its OPEN exchange alone; the other one comes into
			// being (inbound: is accepted / outbound: its dial completes) at the instant the
			// first becomes Established. The Established one is kept, the other is closed.
			jit := time.Duration(mix(p.Seed) % 3000)
			desc := fmt.Sprintf("[mode race-new, %s connection becomes Established as the other one appears (offset %v)]", p.First, jit)
			var first *hz.RConn
			if p.First == "out" {
				oc = w.WaitOut(1, time.Minute)
				first = oc
			} else {
				ic = w.Connect(ps.Addr)
				first = ic
			}
			if first == nil {
				w.Violate("no first connection")
				return
			}
			w.Settle()
			first.SendOpen(first.StdOpen(ras, 90, rid))
			w.Settle()
			if ms := first.Msgs(); len(ms) != 2 || ms[1].Type != wire.TypeKeepalive {
				w.Violate("%s setup: OPEN exchange on the first connection: %s", desc, typesOf(ms))
				return
			}
			if p.First == "out" {
				first.SendKeepalive()
				if jit > 0 {
					time.Sleep(jit % 2000)
				}
				ic = w.Connect(ps.Addr)
			} else {
				// the dial completes 5 ms after AddPeer
				if d := t0 + 5*time.Millisecond - jit%2000 - w.Now(); d > 0 {
					time.Sleep(d)
				}
				first.SendKeepalive()
			}
			w.Settle()
			w.Settle()
			second := ic
			if p.First == "in" {
				second = nil
				if oo := w.OutConns(); len(oo) > 0 {
					second = oo[0]
				}
			}
			outcome = "est-kept"
			if !mon.Up() {
				w.Violate("%s the connection that completed its handshake is not Established", desc)
				return
			}
			if eof, _ := first.EOF(); eof {
				w.Violate("%s the Established connection was closed: %s", desc, typesOf(first.Msgs()))
				return
			}
			if second != nil {
				if eof, _ := second.EOF(); !eof {
					w.Violate("%s the other connection was left open next to the Established one (it saw [%s])", desc, typesOf(second.Msgs()))
					return
				}
			}
			first.SendUpdate(updBody(first.ID, 0))
			w.Settle()
			if cur := mon.Cur(); cur == nil || len(cur.Updates) != 1 {
				w.Violate("%s UPDATE on the Established connection not delivered", desc)
			}
			return
		}
		if p.Mode == "oc-new" {
			// the first connection is taken to OpenConfirm (the remote withholds its KEEPALIVE) before the
			// second one comes into being; the second one must still be served, and the collision is
			// resolved by the identifiers when its OPEN arrives
			if p.First == "out" {
				oc = w.WaitOut(1, time.Minute)
				if oc == nil {
					w.Violate("no outbound connection")
					return
				}
				w.Settle()
				oc.SendOpen(oc.StdOpen(ras, 90, rid))
				w.Settle()
				ic = w.Connect(ps.Addr)
			} else {
				ic = w.Connect(ps.Addr)
				w.Settle()
				ic.SendOpen(ic.StdOpen(ras, 90, rid))
				oc = w.WaitOut(1, time.Minute)
			}
		} else if p.Late {
			ic = w.Connect(ps.Addr)
			oc = w.WaitOut(1, time.Minute)
		} else {
			oc = w.WaitOut(1, time.Minute)
			w.Settle()
			ic = w.Connect(ps.Addr)
		}
		if oc == nil {
			w.Violate("no outbound connection")
			return
		}
		w.Settle()
		conns := map[string]*hz.RConn{"out": oc, "in": ic}
		for d, c := range conns {
			if p.Mode == "oc-new" && d == p.First {
				if ms := c.Msgs(); len(ms) != 2 || ms[1].Type != wire.TypeKeepalive {
					w.Violate("setup: [mode oc-new] OPEN exchange on the first (%s) connection: %s", d, typesOf(ms))
					return
				}
				continue
			}
			if ms := c.Msgs(); len(ms) != 1 || ms[0].Type != wire.TypeOpen {
				if p.Mode == "oc-new" {
					w.Violate("[mode oc-new] the %s connection that appeared while the other one was in OpenConfirm did not receive exactly an OPEN: %s (a connection collision is resolved by the identifiers, not by refusing the newcomer)", d, typesOf(ms))
					return
				}
				w.Violate("setup: %s connection did not receive exactly an OPEN: %s (both connections must be in OpenSent)", d, typesOf(ms))
				return
			}
		}
		other := map[string]string{"out": "in", "in": "out"}
		A, B := conns[p.First], conns[other[p.First]]
		openOf := func(c *hz.RConn) []byte { return wire.Msg(wire.TypeOpen, c.StdOpen(ras, 90, rid).Body()) }
		desc := fmt.Sprintf("[local id %s remote, local AS %s remote, mode %s, first OPEN on %s, inbound-before-dial=%v]", p.IDRel, p.ASRel, p.Mode, p.First, p.Late)

		strict := false // the rule's survivor is demanded
		wantSurvivor := ""
		switch p.Mode {
		case "ordered":
			A.SendMsg("OPEN", openOf(A))
			w.Settle()
			B.SendMsg("OPEN", openOf(B))
			w.Settle()
			strict, wantSurvivor = true, survivor
		case "oc-new":
			B.SendMsg("OPEN", openOf(B))
			w.Settle()
			strict, wantSurvivor = true, survivor
		case "simul":
			A.SendMsg("OPEN", openOf(A))
			B.SendMsg("OPEN", openOf(B))
			w.Settle()
			strict, wantSurvivor = true, survivor
		case "estfirst":
			// A completes and becomes Established while B is still in OpenSent
			A.SendMsg("OPEN", openOf(A))
			w.Settle()
			A.SendKeepalive()
			w.Settle()
			strict, wantSurvivor = true, p.First
		case "race-est":
			// A's KEEPALIVE (-> Established) and B's OPEN at the same instant
			A.SendMsg("OPEN", openOf(A))
			w.Settle()
			A.SendKeepalive()
			B.SendMsg("OPEN", openOf(B))
			w.Settle()
		case "race-ka":
			// A in OpenConfirm; its KEEPALIVE arrives together with B's OPEN, glued in reverse order
			A.SendMsg("OPEN", openOf(A))
			w.Settle()
			B.SendMsg("OPEN", openOf(B))
			A.SendKeepalive()
			w.Settle()
		case "race-close":
			A.SendMsg("OPEN", openOf(A))
			w.Settle()
			B.SendMsg("OPEN", openOf(B))
			A.Close()
			w.Settle()
		case "race-bad":
			A.SendMsg("OPEN", openOf(A))
			w.Settle()
			B.SendMsg("OPEN", openOf(B))
			A.SendMsg("BAD-HEADER", wire.RawHeader(make([]byte, 16), 19, 4))
			w.Settle()
		}

		// who is alive?
		alive := []string{}
		for _, d := range []string{"out", "in"} {
			c := conns[d]
			eof, _ := c.EOF()
			if !eof && !c.OwnClosed() {
				alive = append(alive, d)
			}
		}
		outcome = fmt.Sprint(alive)
		if len(alive) > 1 {
			w.Violate("%s both connections are still open after the collision should have been resolved", desc)
			return
		}
		if strict {
			if len(alive) != 1 || alive[0] != wantSurvivor {
				w.Violate("%s surviving connection(s) %v, RFC 4271 6.8 keeps the %s connection (out: %s | in: %s)", desc, alive, wantSurvivor, typesOf(oc.Msgs()), typesOf(ic.Msgs()))
				return
			}
		}
		// every connection corebgp closed while it had exchanged/sent an OPEN must have received a Cease first
		for _, d := range []string{"out", "in"} {
			c := conns[d]
			if eof, _ := c.EOF(); !eof {
				continue
			}
			ns := notifsOf(c.Msgs())
			if p.Mode == "race-bad" && c == A {
				continue // A may have been answered with a header-error NOTIFICATION instead
			}
			if len(ns) != 1 || ns[0].Code != 6 {
				w.Violate("%s the losing %s connection was closed without exactly one Cease NOTIFICATION: %s", desc, d, typesOf(c.Msgs()))
			}
		}
		if len(alive) == 0 {
			return
		}
		sv := conns[alive[0]]
		// the survivor is untouched: OPEN, KEEPALIVE and nothing else
		ms := sv.Msgs()
		if len(ms) != 2 || ms[1].Type != wire.TypeKeepalive {
			w.Violate("%s the surviving %s connection saw [%s], want exactly OPEN KEEPALIVE (left untouched)", desc, alive[0], typesOf(ms))
			return
		}
		if !mon.Up() {
			sv.SendKeepalive()
			w.Settle()
		}
		if !mon.Up() {
			w.Violate("%s survivor (%s) did not become Established on the remote's KEEPALIVE", desc, alive[0])
			return
		}
		sv.SendUpdate(updBody(sv.ID, 0))
		w.Settle()
		if cur := mon.Cur(); cur == nil || len(cur.Updates) != 1 {
			w.Violate("%s UPDATE on the survivor (%s) not delivered", desc, alive[0])
		}
		if eof, _ := sv.EOF(); eof {
			w.Violate("%s survivor (%s) was closed after establishing", desc, alive[0])
		}
		// a third connection attempt must now be refused without disturbing the session
		c3 := w.Connect(ps.Addr)
		w.Settle()
		if n := len(c3.Msgs()); n != 0 {
			w.Violate("%s an inbound connection during an Established session received %d messages", desc, n)
		}
		if !mon.Up() {
			w.Violate("%s session went down when another inbound connection arrived", desc)
		}
		// one connection survived and is Established: nothing of this peer dials any more
		// (the only outbound attempt of the scenario was the one that collided)
		time.Sleep(20 * time.Second)
		if n := len(w.Dials()); n != 1 && mon.Up() {
			w.Violate("%s %d outbound attempts in all although the surviving %s connection has been Established since the collision: something besides it is dialling", desc, n, alive[0])
		}
	})
	return worldResult(out, true, fmt.Sprintf("|%s %s %s %s %v %s", p.IDRel, p.ASRel, p.Mode, p.First, p.Late, outcome), map[string]int{"collisions": 1, "outcome." + p.Mode + "." + outcome: 1})
}

func TestC07(t *testing.T) {
	c := rt.Get()
	modes := []string{"ordered", "simul", "estfirst", "race-est", "race-ka", "race-close", "race-bad", "race-new", "oc-new"}
	rel := [][2]string{{"lt", "lt"}, {"gt", "lt"}, {"eq", "lt"}, {"eq", "gt"}, {"lt", "gt"}, {"gt", "gt"}, {"far-lt", "lt"}, {"far-gt", "lt"}, {"far-lt", "gt"}, {"far-gt", "gt"}, {"eq", "lt4"}, {"eq", "gt4"}}
	seeds := c.N(48, 3000)
	idx := 0
	for _, rl := range rel {
		for _, m := range modes {
			for _, first := range allDirs {
				for _, late := range []bool{false, true} {
					for k := 0; k < seeds; k++ {
						p := c07Params{IDRel: rl[0], ASRel: rl[1], Mode: m, First: first, Late: late, Seed: uint64(idx)*1099087573 + c.Seed, Hook: hz.HookVSleep}
						if k%6 == 5 {
							p.Hook = hz.HookOff
						}
						i := idx
						runCase(t, "grid", i, p, func(t *testing.T) rt.Result { return c07World(t, p) })
						idx++
					}
				}
			}
		}
	}
}
