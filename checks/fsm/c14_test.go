package fsm

import (
	"fmt"
	"math/rand/v2"
	"net/netip"
	"sync"
	"testing"
	"time"

	"github.com/jwhited/corebgp"

	"verif/internal/gen"
	"verif/internal/hz"
	"verif/internal/ref"
	"verif/internal/rt"
	"verif/internal/wire"
)

// C14 at wire level: the first message on every connection corebgp opens or
// accepts is the OPEN prescribed by configuration and plugin capabilities.

type c14Params struct {
	Dir     string
	LocalAS uint32
	Hold    uint16
	ID      uint32
	Caps    string
	Seed    uint64
	Hook    int
}

// c14MappedID: a router id given in IPv4-mapped IPv6 form is either refused by
// NewServer or reaches the wire as that IPv4 address.
func c14MappedID(t *testing.T, id uint32, dir string, seed uint64) rt.Result {
	v4 := netip.AddrFrom4([4]byte{byte(id >> 24), byte(id >> 16), byte(id >> 8), byte(id)})
	mapped := netip.AddrFrom16(v4.As16())
	out := hz.Run(t, hz.Opts{Seed: seed, HookMode: hz.HookOff, LocalID: mapped, IDMayBeRejected: true}, func(w *hz.World) {
		ps := hz.StdPeer("10.0.1.1")
		ps.Passive = dir == "in"
		w.DialPolicy = func(hz.DialReq) (hz.DialAction, time.Duration) { return hz.DialAccept, 0 }
		w.MustAddPeer(ps)
		var rc *hz.RConn
		if dir == "in" {
			rc = w.Connect(ps.Addr)
		} else if rc = w.WaitOut(1, time.Minute); rc == nil {
			w.Violate("no outbound connection")
			return
		}
		w.Settle()
		ms := rc.Msgs()
		if len(ms) != 1 || ms[0].Type != wire.TypeOpen {
			w.Violate("router id %v accepted by NewServer but no OPEN on the wire: %s", mapped, typesOf(ms))
			return
		}
		if ms[0].Open.ID != id {
			w.Violate("router id %v accepted by NewServer, but the OPEN carries BGP Identifier %08x instead of %08x", mapped, ms[0].Open.ID, id)
		}
	})
	res := worldResult(out, true, fmt.Sprintf("|mapped %v", out.IDRejected), map[string]int{"mapped_ids": 1})
	if out.IDRejected {
		res.Events["mapped_ids_refused_by_NewServer"] = 1
	}
	return res
}

// c14Concurrent: OPENs of several peers are built at the same instant, while the
// plugin goroutines of an Established peer are inside WriteUpdate; each OPEN must
// still be that peer's own, whole and well-formed (the wire monitor of every
// connection judges the octets).
func c14Concurrent(t *testing.T, seed uint64) rt.Result {
	const rounds = 24
	nOpen := 0
	out := hz.Run(t, hz.Opts{Seed: seed, HookMode: hz.HookOff}, func(w *hz.World) {
		r := rand.New(rand.NewPCG(seed, 14))
		kicks := make([]chan struct{}, rounds)
		for i := range kicks {
			kicks[i] = make(chan struct{})
		}
		var kmu sync.Mutex
		next := 0
		kick := func() {
			kmu.Lock()
			if next < rounds {
				close(kicks[next])
				next++
			}
			kmu.Unlock()
		}
		defer func() {
			for k := 0; k < rounds; k++ {
				kick()
			}
		}()
		busy := hz.StdPeer("10.0.2.2")
		busy.Passive = true
		busy.Cfg.OnEst = func(s *hz.Session) {
			for g := 0; g < 3; g++ {
				gr := rand.New(rand.NewPCG(seed, uint64(140+g)))
				go func() {
					for k := 0; k < rounds; k++ {
						<-kicks[k]
						for i := 0; i < 150; i++ {
							if s.Writer.WriteUpdate(make([]byte, 4+gr.IntN(40))) != nil {
								return
							}
						}
					}
				}()
			}
		}
		if bring(w, busy, "in", stEstablished, 0) == nil {
			return
		}
		type pr struct {
			ps  hz.PeerSpec
			exp ref.ExpectedOpen
		}
		var peers []pr
		for k := 0; k < 4; k++ {
			ps := hz.StdPeer(fmt.Sprintf("10.0.1.%d", k+1))
			ps.Passive = true
			ps.LocalAS = []uint32{65001, 4200000000, 65535, 23456}[k]
			ps.Hold = []int{90, 0, 3, 65535}[k]
			ps.Cfg.NoNonce = true
			caps := gen.PluginCaps(r)
			for len(caps) > 0 && !ref.ExpectOpen(ps.LocalAS, uint16(ps.Hold), localIDu, caps).Representable {
				caps = caps[:len(caps)-1]
			}
			for _, cp := range caps {
				ps.Cfg.Caps = append(ps.Cfg.Caps, corebgp.Capability{Code: cp.Code, Value: cp.Value})
			}
			w.MustAddPeer(ps)
			peers = append(peers, pr{ps, ref.ExpectOpen(ps.LocalAS, uint16(ps.Hold), localIDu, caps)})
		}
		for round := 0; round < rounds; round++ {
			kick()
			var rcs []*hz.RConn
			for _, p := range peers {
				rcs = append(rcs, w.Connect(p.ps.Addr))
			}
			w.Settle()
			for k, rc := range rcs {
				ms := rc.Msgs()
				if len(ms) != 1 || ms[0].Type != wire.TypeOpen {
					w.Violate("round %d: connection of %s (OPENs of four peers built at one instant, three plugin goroutines writing) did not receive exactly an OPEN: [%s]", round, peers[k].ps.Addr, typesOf(ms))
				} else if why := peers[k].exp.CheckOpen(ms[0].Open); why != "" {
					w.Violate("round %d: OPEN sent to %s does not reflect that peer's configuration: %s", round, peers[k].ps.Addr, why)
				} else {
					nOpen++
				}
				rc.Close()
			}
			w.Settle()
		}
	})
	return worldResult(out, nOpen > 0, "|concurrent", map[string]int{"concurrent_opens": nOpen})
}

func TestC14(t *testing.T) {
	c := rt.Get()
	for i := 0; i < c.N(60, 2000); i++ {
		seed := uint64(i)*7046029254386353131 + c.Seed
		runCase(t, "concurrent", i, map[string]any{"peers": 4, "writers": 3, "rounds": 24}, func(t *testing.T) rt.Result { return c14Concurrent(t, seed) })
	}
	for i := 0; i < c.N(8, 64); i++ {
		id := []uint32{0xc0000201, 0x0a000001, 0x01020304, 0xfffffffe}[i%4] + uint32(i/4)
		dir := allDirs[i%2]
		seed := uint64(i) + c.Seed
		runCase(t, "mapped-id", i, map[string]any{"router_id": fmt.Sprintf("::ffff:%08x", id), "dir": dir}, func(t *testing.T) rt.Result { return c14MappedID(t, id, dir, seed) })
	}
	n := c.N(12000, 400000)
	asB := []uint32{1, 23456, 65535, 65536, 4200000000, 4294967295}
	for i := 0; i < n; i++ {
		if !c.Mine("wire", i) {
			continue
		}
		r := c.Rand("c14wire", i)
		as := r.Uint32()
		if r.IntN(2) == 0 {
			as = asB[r.IntN(len(asB))]
		}
		if as == 0 {
			as = 7
		}
		hold := uint16(r.Uint32())
		switch r.IntN(4) {
		case 0:
			hold = 0
		case 1:
			hold = uint16(3 + r.IntN(3))
		}
		if hold == 1 || hold == 2 {
			hold = 65535
		}
		id := r.Uint32()
		caps := gen.PluginCaps(r)
		p := c14Params{Dir: allDirs[i%2], LocalAS: as, Hold: hold, ID: id, Caps: fmt.Sprint(caps), Seed: uint64(i)*2654435761 + c.Seed, Hook: hookMode(r)}
		runCase(t, "wire", i, p, func(t *testing.T) rt.Result {
			exp := ref.ExpectOpen(as, hold, id, caps)
			var idb [4]byte
			idb[0], idb[1], idb[2], idb[3] = byte(id>>24), byte(id>>16), byte(id>>8), byte(id)
			out := hz.Run(t, hz.Opts{Seed: p.Seed, HookMode: p.Hook, LocalID: netip.AddrFrom4(idb)}, func(w *hz.World) {
				ps := hz.StdPeer("10.0.1.1")
				ps.LocalAS = as
				ps.RemoteAS = 65002
				ps.Hold = int(hold)
				ps.Passive = p.Dir == "in"
				ps.IdleHold = time.Second
				ps.Cfg.NoNonce = true
				ps.Cfg.SharedCaps = i%2 == 0 // the plugin hands out the slice it keeps
				for _, cp := range caps {
					ps.Cfg.Caps = append(ps.Cfg.Caps, corebgp.Capability{Code: cp.Code, Value: cp.Value})
				}
				w.DialPolicy = func(hz.DialReq) (hz.DialAction, time.Duration) { return hz.DialAccept, 0 }
				mon := w.MustAddPeer(ps)
				var rc *hz.RConn
				if p.Dir == "in" {
					rc = w.Connect(ps.Addr)
				} else {
					rc = w.WaitOut(1, time.Minute)
					if rc == nil {
						w.Violate("active peer did not dial")
						return
					}
				}
				w.Settle()
				ms := rc.Msgs()
				eof, _ := rc.EOF()
				gc, _, _ := mon.Snapshot()
				if len(gc) < 1 {
					w.Violate("GetCapabilities not invoked before the OPEN")
				}
				desc := fmt.Sprintf("[%s as=%d hold=%d id=%08x caps=%v]", p.Dir, as, hold, id, caps)
				if !exp.Representable {
					// nothing at all (the wire monitor judges well-formedness), or an OPEN that
					// still carries exactly the capabilities, never one that leaves some out
					if len(ms) == 0 && !eof {
						w.Violate("%s unrepresentable capabilities: connection neither used nor closed", desc)
					}
					if len(ms) > 0 && ms[0].Type == wire.TypeOpen {
						if why := exp.CheckOpen(ms[0].Open); why != "" {
							w.Violate("%s the capabilities cannot be represented, and the OPEN that was sent anyway differs from them: %s", desc, why)
						}
					}
					return
				}
				if len(ms) != 1 || ms[0].Type != wire.TypeOpen {
					w.Violate("%s first message on the connection is not a single OPEN: [%s] eof=%v", desc, typesOf(ms), eof)
					return
				}
				if why := exp.CheckOpen(ms[0].Open); why != "" {
					w.Violate("%s OPEN on the wire does not reflect configuration: %s", desc, why)
				}
				// every later OPEN of the peer must be the same, whatever was negotiated before:
				// complete a session in which the remote proposes a smaller hold time, drop it, reconnect
				if i%3 != 0 {
					return
				}
				small := uint16(0)
				if hold > 3 {
					small = 3 + uint16(r.IntN(int(hold)-3))
				}
				rc.SendOpen(rc.StdOpen(ps.RemoteAS, small, remoteIDu))
				w.Settle()
				rc.SendKeepalive()
				w.Settle()
				rc.Close()
				w.Settle()
				var rc2 *hz.RConn
				if p.Dir == "in" {
					rc2 = w.Connect(ps.Addr)
				} else {
					rc2 = w.WaitOut(2, time.Minute)
					if rc2 == nil {
						w.Violate("%s no second outbound connection", desc)
						return
					}
				}
				w.Settle()
				ms2 := rc2.Msgs()
				if len(ms2) != 1 || ms2[0].Type != wire.TypeOpen {
					w.Violate("%s second connection did not start with an OPEN: [%s]", desc, typesOf(ms2))
					return
				}
				if why := exp.CheckOpen(ms2[0].Open); why != "" {
					w.Violate("%s OPEN on the peer's second connection (after a session in which the remote proposed hold time %d) does not reflect configuration: %s", desc, small, why)
				}
			})
			return worldResult(out, true, fmt.Sprint("|", exp.Representable, as > 65535, p.Dir, min(len(caps), 6)), map[string]int{"opens": 1})
		})
	}
}
