package fsm

import (
	"fmt"
	"math/rand/v2"
	"net/netip"
	"sort"
	"strings"
	"sync"
	"sync/atomic"
	"testing"
	"time"

	"github.com/anishathalye/porcupine"
	"github.com/jwhited/corebgp"

	"verif/internal/hz"
	"verif/internal/rt"
)

// C20: the peer registry is a consistent map (linearizability of recorded
// concurrent histories against a sequential map model), added/deleted peers
// start/stop operating, bad configurations are rejected without side effect.

// ------------------------------------------------------------ linearizability

type regIn struct {
	Op  string // add | del | get | list
	Key string
	Ver uint32 // add: LocalAS of the configuration (identifies the instance)
}

type regOut struct {
	Err  string   // "", exists, notexist
	Ver  uint32   // get
	List []string // list: sorted "key=ver"
}

func errName(err error) string {
	switch err {
	case nil:
		return ""
	case corebgp.ErrPeerAlreadyExists:
		return "exists"
	case corebgp.ErrPeerNotExist:
		return "notexist"
	}
	return "other:" + err.Error()
}

// state of the sequential model: sorted "key=ver;" string
func regGet(st, key string) (uint32, bool) {
	for _, kv := range strings.Split(st, ";") {
		if k, v, ok := strings.Cut(kv, "="); ok && k == key {
			var n uint32
			fmt.Sscan(v, &n)
			return n, true
		}
	}
	return 0, false
}

func regSet(st, key string, ver uint32, present bool) string {
	var out []string
	for _, kv := range strings.Split(st, ";") {
		if k, _, ok := strings.Cut(kv, "="); ok && k != key {
			out = append(out, kv)
		}
	}
	if present {
		out = append(out, fmt.Sprintf("%s=%d", key, ver))
	}
	sort.Strings(out)
	return strings.Join(out, ";")
}

var regModel = porcupine.Model{
	Init: func() any { return "" },
	Step: func(state, input, output any) (bool, any) {
		st, in, out := state.(string), input.(regIn), output.(regOut)
		_, present := regGet(st, in.Key)
		switch in.Op {
		case "add":
			if present {
				return out.Err == "exists", st
			}
			return out.Err == "", regSet(st, in.Key, in.Ver, true)
		case "del":
			if !present {
				return out.Err == "notexist", st
			}
			return out.Err == "", regSet(st, in.Key, 0, false)
		case "get":
			v, _ := regGet(st, in.Key)
			if !present {
				return out.Err == "notexist", st
			}
			return out.Err == "" && out.Ver == v, st
		case "list":
			want := st
			got := strings.Join(out.List, ";")
			return got == want, st
		}
		return false, st
	},
	DescribeOperation: func(input, output any) string {
		return fmt.Sprintf("%+v -> %+v", input, output)
	},
}

func c20History(t *testing.T, seed uint64, mode string) rt.Result {
	var ops []porcupine.Operation
	verdict := ""
	lisDelay := time.Duration(0)
	if mode == "closing" && mix(seed)%2 == 0 {
		// Serve takes a while to close its listener: registry calls land between Close's
		// signal and Serve's own shutdown of the peers
		lisDelay = 300 * time.Microsecond
	}
	out := hz.Run(t, hz.Opts{Seed: seed, HookMode: hz.HookYield, NoServe: mode == "idle", Quiet: true, Limit: time.Hour, LisCloseDelay: lisDelay}, func(w *hz.World) {
		r := rand.New(rand.NewPCG(seed, 20))
		// (an IPv4-mapped IPv6 address is a key of its own, distinct from the IPv4 address)
		all := []string{"10.0.1.1", "10.0.1.2", "::ffff:10.0.1.1", "2001:db8::1", "10.0.1.3"}
		var keys []string
		for _, k := range r.Perm(len(all))[:2+r.IntN(3)] {
			keys = append(keys, all[k])
		}
		clients := 2 + r.IntN(5)
		perClient := 4 + r.IntN(5)
		var clock atomic.Int64
		var mu sync.Mutex
		var wg sync.WaitGroup
		w.DialPolicy = func(hz.DialReq) (hz.DialAction, time.Duration) { return hz.DialRefuse, 0 }
		plugin := &hz.QuietPlugin{}
		for c := 0; c < clients; c++ {
			wg.Add(1)
			go func(c int) {
				defer wg.Done()
				rr := rand.New(rand.NewPCG(seed, uint64(300+c)))
				for i := 0; i < perClient; i++ {
					in := regIn{Op: []string{"add", "add", "del", "get", "list"}[rr.IntN(5)], Key: keys[rr.IntN(len(keys))]}
					a := netip.MustParseAddr(in.Key)
					var o regOut
					call := clock.Add(1)
					switch in.Op {
					case "add":
						in.Ver = uint32(1000*(c+1) + i + 1)
						o.Err = errName(w.Srv.AddPeer(corebgp.PeerConfig{RemoteAddress: a, LocalAS: in.Ver, RemoteAS: 65002}, plugin, corebgp.WithIdleHoldTime(time.Millisecond)))
					case "del":
						o.Err = errName(w.Srv.DeletePeer(a))
					case "get":
						cfg, err := w.Srv.GetPeer(a)
						o.Err, o.Ver = errName(err), cfg.LocalAS
					case "list":
						in.Key = ""
						for _, cfg := range w.Srv.ListPeers() {
							o.List = append(o.List, fmt.Sprintf("%s=%d", cfg.RemoteAddress, cfg.LocalAS))
						}
						sort.Strings(o.List)
					}
					ret := clock.Add(1)
					mu.Lock()
					ops = append(ops, porcupine.Operation{ClientId: c, Input: in, Call: call, Output: o, Return: ret})
					mu.Unlock()
					if rr.IntN(3) == 0 {
						time.Sleep(time.Duration(rr.IntN(300)) * time.Microsecond)
					}
				}
			}(c)
		}
		if mode == "closing" {
			time.Sleep(time.Duration(r.IntN(400)) * time.Microsecond)
			w.Srv.Close()
		}
		wg.Wait()
	})
	// the recorded history is checked outside the bubble (real-time checker timeout)
	pres, _ := porcupine.CheckOperationsVerbose(regModel, ops, 20*time.Second)
	switch pres {
	case porcupine.Ok:
		verdict = "ok"
	case porcupine.Unknown:
		verdict = "unknown"
	case porcupine.Illegal:
		verdict = "illegal"
		var lines []string
		sort.Slice(ops, func(i, j int) bool { return ops[i].Call < ops[j].Call })
		for _, op := range ops {
			lines = append(lines, fmt.Sprintf("client %d [%d,%d] %+v -> %+v", op.ClientId, op.Call, op.Return, op.Input, op.Output))
		}
		out.Violations = append(out.Violations, fmt.Sprintf("registry history (%s server) is not linearizable with respect to a map keyed by remote address:\n%s", mode, strings.Join(lines, "\n")))
	}
	res := worldResult(out, true, fmt.Sprintf("|%s %d", mode, len(ops)), map[string]int{"histories": 1, "operations": len(ops), "porcupine_" + verdict: 1})
	if verdict == "unknown" && res.Verdict == "held" {
		res.Verdict, res.Why = "inconclusive", "porcupine timed out after 20 s"
	}
	if res.Sample == nil && len(ops) > 0 {
		var lines []string
		for _, op := range ops[:min(len(ops), 8)] {
			lines = append(lines, fmt.Sprintf("client %d [%d,%d] %+v -> %+v", op.ClientId, op.Call, op.Return, op.Input, op.Output))
		}
		res.Sample = lines
	}
	return res
}

// ------------------------------------------------------------ behaviour

func c20Behaviour(t *testing.T, kind string, seed uint64) rt.Result {
	hook := []int{hz.HookVSleep, hz.HookOff, hz.HookYield}[mix(seed)/2%3] // who wins a race at one instant differs by mode
	out := hz.Run(t, hz.Opts{Seed: seed, HookMode: hook, NoServe: kind == "before-serve" || kind == "serve-after-close"}, func(w *hz.World) {
		a := netip.MustParseAddr("10.0.1.1")
		b := netip.MustParseAddr("10.0.1.2")
		dialsTo := func(x netip.Addr) int {
			n := 0
			for _, d := range w.Dials() {
				if d.Peer == x {
					n++
				}
			}
			return n
		}
		served := func(x netip.Addr) bool {
			rc := w.Connect(x)
			w.Settle()
			ok := len(rc.Msgs()) > 0
			rc.Close()
			w.Settle()
			return ok
		}
		switch kind {
		case "add-while-serving":
			time.Sleep(3 * time.Second)
			pa := hz.StdPeer(a.String())
			pb := hz.StdPeer(b.String())
			pb.Passive = true
			w.MustAddPeer(pa)
			w.MustAddPeer(pb)
			w.Settle()
			if dialsTo(a) == 0 {
				w.Violate("an active peer added while serving did not start dialling")
			}
			time.Sleep(11 * time.Second)
			if n := dialsTo(a); n < 3 {
				w.Violate("an active peer added while serving made only %d attempts in 11 s (idle-hold 5 s)", n)
			}
			if dialsTo(b) != 0 {
				w.Violate("a passive peer dialled")
			}
			if !served(b) || !served(a) {
				w.Violate("a peer added while serving does not accept inbound connections")
			}
			// a passive peer stays passive after its inbound connection has come and gone
			time.Sleep(12 * time.Second)
			if n := dialsTo(b); n != 0 {
				w.Violate("a passive peer made %d outbound attempt(s) after an inbound connection had gone down", n)
			}
		case "delete-stops":
			pa := hz.StdPeer(a.String())
			w.MustAddPeer(pa)
			time.Sleep(6 * time.Second)
			if err := w.DeletePeer(a); err != nil {
				w.Violate("DeletePeer: %v", err)
			}
			n := dialsTo(a)
			time.Sleep(20 * time.Second)
			if dialsTo(a) != n {
				w.Violate("a deleted peer kept dialling (%d attempts after DeletePeer)", dialsTo(a)-n)
			}
			if served(a) {
				w.Violate("a deleted peer still accepts inbound connections")
			}
			if err := w.DeletePeer(a); err != corebgp.ErrPeerNotExist {
				w.Violate("second DeletePeer returned %v", err)
			}
			if _, err := w.Srv.GetPeer(a); err != corebgp.ErrPeerNotExist {
				w.Violate("GetPeer of a deleted peer returned %v", err)
			}
		case "before-serve":
			pa := hz.StdPeer(a.String())
			pb := hz.StdPeer(b.String())
			pb.Passive = true
			w.MustAddPeer(pa)
			w.MustAddPeer(pb)
			time.Sleep(20 * time.Second)
			if dialsTo(a) != 0 {
				w.Violate("a peer dialled before Serve was called")
			}
			w.Serve()
			w.Settle()
			if dialsTo(a) == 0 {
				w.Violate("a peer added before Serve did not start when Serve was called")
			}
			if !served(b) {
				w.Violate("a passive peer added before Serve does not accept inbound connections after Serve")
			}
		case "serve-after-close":
			w.MustAddPeer(hz.StdPeer(a.String()))
			for k := 0; k < 40; k++ { // many peers: whatever is started has time to act before it is stopped again
				w.MustAddPeer(hz.StdPeer(fmt.Sprintf("10.0.3.%d", k+1)))
			}
			if mix(seed)%2 == 0 {
				w.Serve()
				time.Sleep(time.Second)
			}
			w.Srv.Close()
			w.Settle()
			n := len(w.Dials()) // nothing may happen for any peer from here on, whatever is called
			if m := w.Mon(a); m != nil {
				m.Seal("Close") // any plugin callback from now on is reported
			}
			done := make(chan error, 1)
			go func() { done <- w.Srv.Serve(nil) }()
			w.Settle()
			select {
			case err := <-done:
				if err != corebgp.ErrServerClosed {
					w.Violate("Serve after Close returned %v, want ErrServerClosed", err)
				}
			default:
				w.Violate("Serve after Close did not return")
				w.Srv.Close()
			}
			time.Sleep(20 * time.Second)
			if m := len(w.Dials()); m != n {
				w.Violate("peers operate after Close: %d outbound attempt(s) after Close had returned (Serve after Close started them)", m-n)
			}
		case "duplicate-add":
			pa := hz.StdPeer(a.String())
			pa.Passive = true
			s := bring(w, pa, "in", stEstablished, 90)
			if s == nil {
				return
			}
			dup := corebgp.PeerConfig{RemoteAddress: a, LocalAS: 1, RemoteAS: 2}
			if err := w.Srv.AddPeer(dup, &hz.QuietPlugin{}); err != corebgp.ErrPeerAlreadyExists {
				w.Violate("AddPeer of an existing key returned %v", err)
			}
			if cfg, err := w.Srv.GetPeer(a); err != nil || cfg.LocalAS != pa.LocalAS {
				w.Violate("AddPeer of an existing key changed the stored configuration: %+v %v", cfg, err)
			}
			s.rc.SendUpdate(updBody(s.rc.ID, 0))
			w.Settle()
			if cur := s.mon.Cur(); cur == nil || len(cur.Updates) != 1 {
				w.Violate("AddPeer of an existing key disturbed the running session")
			}
			if l := w.Srv.ListPeers(); len(l) != 1 {
				w.Violate("ListPeers returned %d entries after a refused duplicate AddPeer", len(l))
			}
		}
	})
	return worldResult(out, true, "|"+kind, map[string]int{"behaviour": 1})
}

// ------------------------------------------------------------ configuration grid

func c20Grid(t *testing.T) rt.Result {
	remotes := []netip.Addr{{}, netip.MustParseAddr("10.0.1.1"), netip.MustParseAddr("2001:db8::1")}
	locals := []netip.Addr{{}, netip.MustParseAddr("10.0.0.1"), netip.MustParseAddr("2001:db8::100")}
	ases := []uint32{0, 1, 65535, 65536, 4294967295}
	holds := []uint16{0, 1, 2, 3, 90, 65535}
	ports := []int{-1, 0, 1, 179, 65535, 65536}
	n, bad := 0, []string{}
	srv, err := corebgp.NewServer(netip.MustParseAddr("10.0.0.1"))
	if err != nil {
		return rt.Violated("NewServer(10.0.0.1): "+err.Error(), nil)
	}
	for _, ra := range remotes {
		for _, la := range locals {
			for _, las := range ases {
				for _, ras := range ases {
					for _, h := range holds {
						for _, port := range ports {
							for _, passive := range []bool{false, true} {
								n++
								want := ra.IsValid() && (!la.IsValid() || la.Is4() == ra.Is4()) && las != 0 && ras != 0 && (h == 0 || h >= 3) && port >= 1 && port <= 65535
								opts := []corebgp.PeerOption{corebgp.WithHoldTime(h), corebgp.WithPort(port)}
								if la.IsValid() {
									opts = append(opts, corebgp.WithLocalAddress(la))
								}
								if passive {
									opts = append(opts, corebgp.WithPassive())
								}
								err := srv.AddPeer(corebgp.PeerConfig{RemoteAddress: ra, LocalAS: las, RemoteAS: ras}, &hz.QuietPlugin{}, opts...)
								desc := fmt.Sprintf("remote=%v local=%v localAS=%d remoteAS=%d hold=%d port=%d passive=%v", ra, la, las, ras, h, port, passive)
								if (err == nil) != want {
									if len(bad) < 12 {
										bad = append(bad, fmt.Sprintf("AddPeer(%s) returned %v; a configuration that can%s yield a valid session must be %s", desc, err, map[bool]string{true: "", false: "not"}[want], map[bool]string{true: "accepted", false: "rejected"}[want]))
									}
								}
								l := srv.ListPeers()
								if err != nil && len(l) != 0 {
									bad = append(bad, fmt.Sprintf("rejected AddPeer(%s) changed ListPeers to %v", desc, l))
								}
								if err == nil {
									if len(l) != 1 || l[0].RemoteAddress != ra || l[0].LocalAS != las || l[0].RemoteAS != ras {
										bad = append(bad, fmt.Sprintf("after AddPeer(%s) ListPeers = %v", desc, l))
									}
									if e := srv.DeletePeer(ra); e != nil {
										bad = append(bad, fmt.Sprintf("DeletePeer after AddPeer(%s): %v", desc, e))
									}
								}
							}
						}
					}
				}
			}
		}
	}
	// router ids
	for _, id := range []string{"", "10.0.0.1", "0.0.0.0", "255.255.255.255", "224.0.0.1", "::1", "2001:db8::1", "fe80::1%eth0"} {
		var a netip.Addr
		if id != "" {
			a = netip.MustParseAddr(id)
		}
		n++
		_, err := corebgp.NewServer(a)
		if (err == nil) != a.Is4() {
			bad = append(bad, fmt.Sprintf("NewServer(%q) returned %v; exactly IPv4 router ids are acceptable", id, err))
		}
	}
	res := rt.Result{Verdict: "held", Nontrivial: true, Evals: n, Sigs: []string{"grid", "routerids"}, Sample: "remote=10.0.1.1 local=<unset> localAS=0 remoteAS=1 hold=3 port=179 passive=false", Events: map[string]int{"configurations": n}}
	if len(bad) > 0 {
		res.Verdict, res.Why, res.Witness = "violated", strings.Join(bad, "\n"), bad
	}
	return res
}

func TestC20(t *testing.T) {
	c := rt.Get()
	runCase(t, "grid", 0, map[string]any{"space": "3 remote x 3 local x 5 local AS x 5 remote AS x 6 hold x 6 port x passive = 16200 configurations + 8 router ids"}, func(t *testing.T) rt.Result { return c20Grid(t) })
	n := c.N(6000, 400000)
	for i := 0; i < n; i++ {
		seed := uint64(i)*1181783497276652981 + c.Seed
		mode := []string{"idle", "serving", "closing"}[i%3]
		runCase(t, "histories", i, map[string]any{"seed": seed, "server": mode}, func(t *testing.T) rt.Result { return c20History(t, seed, mode) })
	}
	kinds := []string{"add-while-serving", "delete-stops", "before-serve", "serve-after-close", "duplicate-add"}
	m := c.N(500, 10000)
	for i := 0; i < m; i++ {
		kind := kinds[i%len(kinds)]
		seed := uint64(i)*17 + c.Seed
		runCase(t, "behaviour", i, map[string]any{"kind": kind, "seed": seed}, func(t *testing.T) rt.Result { return c20Behaviour(t, kind, seed) })
	}
}
