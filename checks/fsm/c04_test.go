package fsm

import (
	"bytes"
	"fmt"
	"math/rand/v2"
	"sync"
	"sync/atomic"
	"testing"
	"time"

	"github.com/jwhited/corebgp"

	"verif/internal/hz"
	"verif/internal/rt"
	"verif/internal/wire"
)

// C04: the outbound byte stream is whole well-formed messages; WriteUpdate
// contract (exactly once, per-caller order, no deadlock from callbacks, stale
// writers fail and never reach a later connection).

type c04Params struct {
	Dir      string
	Writers  int
	Epochs   int
	Teardown []string // how each epoch but the last ends
	Hold     string   // "3" | "local0" | "remote0": which side makes the negotiated hold time 0
	Seed     uint64
	Hook     int
}

type wcall struct {
	epoch, wid, seq int
	body            []byte
	err             error
	at              time.Duration
	retAt           time.Duration
}

type c04State struct {
	mu    sync.Mutex
	calls []*wcall
	stop  atomic.Bool
	wg    sync.WaitGroup
	// trig, when set, is run once by the next writer goroutine immediately before
	// its WriteUpdate call: the teardown stimulus and a write at the same instant
	trig atomic.Pointer[func()]
}

func c04Body(r *rand.Rand, epoch, wid, seq int) []byte {
	l := 12 + r.IntN(40)
	switch r.IntN(10) {
	case 0:
		l = 4077
	case 1:
		l = 4000 + r.IntN(78)
	case 2:
		l = 12
	case 3:
		l = 200 + r.IntN(800)
	}
	b := make([]byte, l)
	for i := range b {
		b[i] = byte(r.Uint32())
	}
	b[0], b[1], b[2], b[3] = 0xC4, byte(epoch), byte(wid), byte(seq>>16)
	b[4], b[5] = byte(seq>>8), byte(seq)
	return b
}

func c04Key(b []byte) (epoch, wid, seq int, ok bool) {
	if len(b) < 12 || b[0] != 0xC4 {
		return 0, 0, 0, false
	}
	return int(b[1]), int(b[2]), int(b[3])<<16 | int(b[4])<<8 | int(b[5]), true
}

func (st *c04State) write(w *hz.World, wr corebgp.UpdateMessageWriter, epoch, wid, seq int, body []byte) error {
	c := &wcall{epoch: epoch, wid: wid, seq: seq, body: body, at: w.Now()}
	st.mu.Lock()
	st.calls = append(st.calls, c)
	st.mu.Unlock()
	err := wr.WriteUpdate(body)
	st.mu.Lock()
	c.err = err
	c.retAt = w.Now()
	if err == nil {
		c.err = nil
	}
	st.mu.Unlock()
	return err
}

// writeCopy is write for a caller that goes on using the memory of body: the record
// keeps what body held when the call was made.
func (st *c04State) writeCopy(w *hz.World, wr corebgp.UpdateMessageWriter, epoch, wid, seq int, body []byte) error {
	c := &wcall{epoch: epoch, wid: wid, seq: seq, body: append([]byte(nil), body...), at: w.Now()}
	st.mu.Lock()
	st.calls = append(st.calls, c)
	st.mu.Unlock()
	err := wr.WriteUpdate(body)
	st.mu.Lock()
	c.err = err
	c.retAt = w.Now()
	st.mu.Unlock()
	return err
}

const (
	widOnEst   = 200 // call made from inside OnEstablished
	widHandler = 201 // calls made from inside the update handler
	widShort   = 202 // writer using bodies shorter than an id (0..11 bytes)
	widArena   = 203 // writer whose bodies are carved back to back from one buffer, filled in pairs before they are written
)

func c04World(t *testing.T, p c04Params) rt.Result {
	st := &c04State{}
	var nOK, nErr, nWire int
	out := hz.Run(t, hz.Opts{Seed: p.Seed, HookMode: p.Hook, Limit: time.Hour}, func(w *hz.World) {
		ps := hz.StdPeer("10.0.1.1")
		ps.Hold = 3
		rhold := uint16(3)
		switch p.Hold {
		case "local0":
			ps.Hold = 0
		case "remote0":
			rhold = 0
		}
		ps.Passive = p.Dir == "in"
		ps.IdleHold = time.Second
		ps.Cfg.ProbeWriteInClose = true
		ps.Cfg.OnEst = func(s *hz.Session) {
			ep := s.Epoch
			// from inside OnEstablished
			wr := rand.New(rand.NewPCG(p.Seed, uint64(ep)*1000+999))
			st.write(w, s.Writer, ep, widOnEst, 0, c04Body(wr, ep, widOnEst, 0))
			for k := 0; k < p.Writers; k++ {
				wid := k
				st.wg.Add(1)
				go func() {
					defer st.wg.Done()
					r := rand.New(rand.NewPCG(p.Seed, uint64(ep)*1000+uint64(wid)))
					for seq := 0; !st.stop.Load() && seq < 400; seq++ {
						if f := st.trig.Swap(nil); f != nil {
							(*f)()
						}
						st.write(w, s.Writer, ep, wid, seq, c04Body(r, ep, wid, seq))
						switch r.IntN(4) {
						case 0:
						case 1:
							time.Sleep(time.Duration(1 + r.IntN(2000)))
						default:
							time.Sleep(time.Duration(r.IntN(60)) * time.Millisecond)
						}
					}
				}()
			}
			// a writer that encodes its bodies back to back into one buffer (the slices have
			// spare capacity into the next body) and writes them afterwards: what reaches the
			// wire is what each slice held when it was filled
			st.wg.Add(1)
			go func() {
				defer st.wg.Done()
				r := rand.New(rand.NewPCG(p.Seed, uint64(ep)*1000+888))
				arena := make([]byte, 0, 1<<16)
				for seq := 0; !st.stop.Load() && seq < 60; seq += 2 {
					arena = arena[:0]
					var pair [2][]byte
					for k := range pair {
						b := c04Body(r, ep, widArena, seq+k)
						if len(b) > 300 {
							b = b[:300]
						}
						off := len(arena)
						arena = append(arena, b...)
						pair[k] = arena[off:len(arena)] // capacity reaches to the end of the buffer
					}
					for k := range pair {
						st.writeCopy(w, s.Writer, ep, widArena, seq+k, pair[k])
					}
					time.Sleep(time.Duration(r.IntN(80)) * time.Millisecond)
				}
			}()
			// a writer with bodies too short to carry an id
			st.wg.Add(1)
			go func() {
				defer st.wg.Done()
				r := rand.New(rand.NewPCG(p.Seed, uint64(ep)*1000+777))
				for seq := 0; !st.stop.Load() && seq < 100; seq++ {
					b := make([]byte, r.IntN(12))
					for i := range b {
						b[i] = 0xA0 + byte(ep)
					}
					st.write(w, s.Writer, ep, widShort, seq, b)
					time.Sleep(time.Duration(r.IntN(100)) * time.Millisecond)
				}
			}()
		}
		hseq := map[int]int{}
		ps.Cfg.OnUpdate = func(s *hz.Session, idx int, body []byte) *corebgp.Notification {
			r := rand.New(rand.NewPCG(p.Seed, uint64(s.Epoch)*1000+uint64(idx)+5000))
			if mix(p.Seed)%2 == 0 {
				time.Sleep(2 * time.Microsecond) // the handler takes a moment before it answers
			}
			st.write(w, s.Writer, s.Epoch, widHandler, hseq[s.Epoch], c04Body(r, s.Epoch, widHandler, hseq[s.Epoch]))
			hseq[s.Epoch]++
			return nil
		}
		w.DialPolicy = func(hz.DialReq) (hz.DialAction, time.Duration) { return hz.DialAccept, 0 }
		mon := w.MustAddPeer(ps)
		r := rand.New(rand.NewPCG(p.Seed, 4242))
		defer func() { // also on early returns: no writer may outlive the world
			st.stop.Store(true)
			st.wg.Wait()
		}()

		var conns []*hz.RConn
		silent := 0
		for ep := 0; ep < p.Epochs; ep++ {
			var rc *hz.RConn
			if p.Dir == "in" {
				rc = w.Connect(ps.Addr)
			} else {
				rc = w.WaitOut(len(conns)+1, 10*time.Minute)
				if rc == nil {
					w.Violate("epoch %d: no outbound connection within 10 virtual minutes", ep)
					return
				}
			}
			conns = append(conns, rc)
			if !rc.Handshake(ps.RemoteAS, rhold, remoteIDu) {
				w.Violate("epoch %d: handshake failed: %s", ep, typesOf(rc.Msgs()))
				return
			}
			w.Settle()
			if !mon.Up() {
				w.Violate("epoch %d: session not Established", ep)
				return
			}
			// a send buffer that is full now and then: a Write call blocks before it
			// takes effect (atomically, as on a real socket)
			sr := rand.New(rand.NewPCG(p.Seed, uint64(7000+ep)))
			var smu sync.Mutex
			stallFn := func() time.Duration {
				smu.Lock()
				defer smu.Unlock()
				switch k := sr.IntN(100); {
				case k < 85:
					return 0
				case k < 95:
					return time.Duration(1 + sr.IntN(2000))
				default:
					return time.Duration(sr.IntN(1300)) * time.Millisecond
				}
			}
			rc.Pair.SetWriteDelay0(stallFn)
			// keep the session alive and poke the handler
			life := time.Duration(300+r.IntN(3500)) * time.Millisecond
			end := w.Now() + life
			td := "close"
			if ep < len(p.Teardown) {
				td = p.Teardown[ep]
			}
			if td == "silent" && p.Hold != "3" {
				td = "cease" // a hold time of 0 never expires
			}
			for w.Now() < end {
				time.Sleep(time.Duration(100+r.IntN(700)) * time.Millisecond)
				if td == "silent" {
					continue
				}
				if r.IntN(2) == 0 {
					rc.SendKeepalive()
				} else {
					rc.SendUpdate(updBody(rc.ID, 0))
				}
			}
			rc.Pair.SetWriteDelay0(nil) // writes already blocked finish within 1.3 s
			if ep == p.Epochs-1 {
				break
			}
			// half of the remote-initiated teardowns are issued by a writer goroutine
			// right before one of its writes (a write in flight at the teardown instant)
			fire := func(f func()) {
				if r.IntN(2) == 0 {
					f()
					return
				}
				st.trig.Store(&f)
				for i := 0; i < 200 && st.trig.Load() != nil; i++ {
					time.Sleep(time.Millisecond)
				}
				if g := st.trig.Swap(nil); g != nil {
					f()
				}
			}
			switch td {
			case "close":
				fire(rc.Close)
			case "reset":
				fire(rc.Reset)
			case "cease":
				fire(func() { rc.SendNotification(6, 2, nil) })
			case "silent":
				// let the hold timer (3 s) expire: corebgp sends Hold Timer Expired and damps the peer for 60 s
				if !rc.WaitEOF(10 * time.Second) {
					w.Violate("epoch %d: hold timer did not expire on a silent remote", ep)
				}
				silent++
				time.Sleep(time.Duration(60<<min(silent-1, 3))*time.Second + time.Second)
			}
			w.Settle()
			for i := 0; i < 300 && mon.Up(); i++ { // a blocked write may delay the teardown by up to 1.3 s
				time.Sleep(10 * time.Millisecond)
			}
			if mon.Up() {
				w.Violate("epoch %d: session still up after teardown by %s", ep, td)
				return
			}
			// stale writers keep hammering for a while
			time.Sleep(time.Duration(r.IntN(500)) * time.Millisecond)
		}
		time.Sleep(1400 * time.Millisecond) // let blocked writes drain so that Close is judged on its own
		if last := conns[len(conns)-1]; mix(p.Seed)%2 == 0 && mon.Up() {
			// Close arrives while the update handler is at work; the handler's write, made
			// after the stop was requested, must still return
			last.SendUpdate(updBody(last.ID, 0))
			time.Sleep(time.Microsecond)
		}
		w.Close()
		st.stop.Store(true)
		time.Sleep(200 * time.Millisecond)
		st.wg.Wait()
		w.Settle()

		// ---------------- offline join of call log and wire logs
		type key struct{ e, w, s int }
		onWire := map[key][]int{} // -> connection indexes where seen
		wireOrder := map[[2]int][]int{}
		shortOnWire := map[int]int{}
		for ci, rc := range conns {
			for _, m := range rc.Msgs() {
				if m.Type != wire.TypeUpdate {
					continue
				}
				nWire++
				e, wid, seq, ok := c04Key(m.Body)
				if !ok {
					if bytes.Equal(m.Body, []byte{0, 0, 0, 0}) {
						w.Violate("connection %d carries the UPDATE written from inside OnClose (a write after the session ended reached the wire)", ci)
					} else if len(m.Body) < 12 {
						shortOnWire[len(m.Body)]++
						if len(m.Body) > 0 && int(m.Body[0]-0xA0) != ci {
							w.Violate("short UPDATE written in epoch %d appeared on connection %d", int(m.Body[0]-0xA0), ci)
						}
					} else if !bytes.Equal(m.Body, []byte{0, 0, 0, 0}) {
						w.Violate("connection %d carries an UPDATE nobody wrote: %d bytes %x..", ci, len(m.Body), head(m.Body))
					}
					continue
				}
				k := key{e, wid, seq}
				onWire[k] = append(onWire[k], ci)
				wireOrder[[2]int{e, wid}] = append(wireOrder[[2]int{e, wid}], seq)
				if e != ci {
					w.Violate("UPDATE written with the writer of epoch %d (writer %d seq %d) appeared on connection %d: a stale writer reached a later connection", e, wid, seq, ci)
				}
			}
		}
		st.mu.Lock()
		defer st.mu.Unlock()
		bodies := map[key][]byte{}
		for _, c := range st.calls {
			if c.wid == widShort {
				continue
			}
			k := key{c.epoch, c.wid, c.seq}
			bodies[k] = c.body
			n := len(onWire[k])
			if c.err == nil {
				nOK++
				if n != 1 {
					w.Violate("WriteUpdate(epoch %d writer %d seq %d, %d bytes) returned nil but appears %d times on the wire", c.epoch, c.wid, c.seq, len(c.body), n)
				}
			} else {
				nErr++
				if n > 1 {
					w.Violate("WriteUpdate(epoch %d writer %d seq %d) returned %v and appears %d times on the wire", c.epoch, c.wid, c.seq, c.err, n)
				}
			}
		}
		shortOK, shortAll := map[int]int{}, map[int]int{}
		for _, c := range st.calls {
			if c.wid == widShort {
				shortAll[len(c.body)]++
				if c.err == nil {
					shortOK[len(c.body)]++
					nOK++
				}
			}
		}
		for l := 0; l < 12; l++ {
			if shortOnWire[l] < shortOK[l] || shortOnWire[l] > shortAll[l] {
				w.Violate("%d-byte UPDATE bodies: %d WriteUpdate calls returned nil out of %d, but %d appear on the wire", l, shortOK[l], shortAll[l], shortOnWire[l])
			}
		}
		for ci, rc := range conns {
			for _, m := range rc.Msgs() {
				if e, wid, seq, ok := c04Key(m.Body); ok && m.Type == wire.TypeUpdate {
					if b, known := bodies[key{e, wid, seq}]; !known {
						w.Violate("connection %d carries UPDATE (epoch %d writer %d seq %d) that was never written", ci, e, wid, seq)
					} else if !bytes.Equal(b, m.Body) {
						w.Violate("UPDATE (epoch %d writer %d seq %d) on the wire differs from the body passed to WriteUpdate", e, wid, seq)
					}
				}
			}
		}
		for k, seqs := range wireOrder {
			for i := 1; i < len(seqs); i++ {
				if seqs[i] <= seqs[i-1] {
					w.Violate("writer %d of epoch %d: seq %d appears after seq %d on the wire (per-caller order broken)", k[1], k[0], seqs[i], seqs[i-1])
					break
				}
			}
		}
		// no call hangs: the simulated send buffer holds a write up for 1.3 s at most
		for _, c := range st.calls {
			if d := c.retAt - c.at; d > 2*time.Second {
				w.Violate("WriteUpdate (epoch %d writer %d seq %d) called at +%v returned only at +%v, %v later (result %v): a call in flight when its session ended must not wait for anything else", c.epoch, c.wid, c.seq, c.at, c.retAt, d, c.err)
				break
			}
		}
		// stale writers: every call that started after its session's OnClose began must fail
		_, _, ss := mon.Snapshot()
		for _, c := range st.calls {
			if c.epoch < len(ss) && ss[c.epoch].CloseEnter >= 0 && c.at > ss[c.epoch].CloseAt && c.err == nil {
				w.Violate("WriteUpdate on the writer of epoch %d returned nil at +%v although that session's OnClose began at +%v", c.epoch, c.at, ss[c.epoch].CloseAt)
				break
			}
		}
		for _, s := range ss {
			if s.WriteInCloseDone && s.WriteInCloseErr == nil {
				w.Violate("WriteUpdate from inside OnClose (epoch %d) returned nil", s.Epoch)
			}
		}
		if len(ss) != p.Epochs {
			w.Violate("plugin saw %d sessions, scenario established %d", len(ss), p.Epochs)
		}
	})
	return worldResult(out, nOK > 0, fmt.Sprintf("|%s w%d e%d %v %s", p.Dir, p.Writers, p.Epochs, p.Teardown, p.Hold),
		map[string]int{"writes_ok": nOK, "writes_err": nErr, "updates_on_wire": nWire, "worlds": 1})
}

func TestC04(t *testing.T) {
	c := rt.Get()
	n := c.N(1600, 80000)
	tds := []string{"close", "reset", "cease", "silent"}
	for i := 0; i < n; i++ {
		if !c.Mine("writers", i) {
			continue
		}
		r := c.Rand("c04", i)
		p := c04Params{Dir: allDirs[r.IntN(2)], Writers: 1 + r.IntN(16), Epochs: 1 + r.IntN(3), Seed: uint64(i)*374761393 + c.Seed, Hook: hookMode(r)}
		for e := 0; e < p.Epochs-1; e++ {
			td := tds[r.IntN(len(tds))]
			if td == "silent" && r.IntN(2) == 0 {
				td = "close"
			}
			p.Teardown = append(p.Teardown, td)
		}
		p.Hold = []string{"3", "3", "local0", "remote0"}[r.IntN(4)]
		runCase(t, "writers", i, p, func(t *testing.T) rt.Result { return c04World(t, p) })
	}
}
