package fsm

import (
	"bytes"
	"fmt"
	"math/rand/v2"
	"testing"
	"time"

	"github.com/jwhited/corebgp"

	"verif/internal/hz"
	"verif/internal/memnet"
	"verif/internal/rt"
	"verif/internal/wire"
)

// C03: inbound UPDATEs reach the handler exactly once, in order, byte-exact.

type c03Params struct {
	Dir       string
	N         int    // messages in the stream
	Glue      bool   // the stream starts with the KEEPALIVE that establishes the session
	NotifAt   int    // handler returns a NOTIFICATION at this delivery (-1: never)
	SlowEst   bool   // OnEstablished takes virtual time while UPDATEs are already arriving
	SlowH     bool   // handler takes random virtual time
	Partition string // how the byte stream is cut into writes
	End       string // "" | fin | badhdr | notif | finmid : what follows the stream at once
	Seed      uint64
	Hook      int
}

var c03Lens = []int{0, 1, 2, 3, 4, 5, 18, 19, 20, 23, 255, 256, 1000, 4000, 4075, 4076, 4077}

func c03Body(r *rand.Rand, conn, idx int) []byte {
	l := c03Lens[r.IntN(len(c03Lens))]
	if r.IntN(3) == 0 {
		l = r.IntN(64)
	}
	b := make([]byte, l)
	for i := range b {
		b[i] = byte(r.Uint32())
	}
	id := []byte{byte(conn), byte(idx >> 16), byte(idx >> 8), byte(idx)}
	copy(b, id)
	return b
}

func c03Cuts(r *rand.Rand, kind string, n int, bounds []int) []int {
	var out []int
	switch kind {
	case "one":
	case "bytes":
		for i := 1; i < n; i++ {
			out = append(out, i)
		}
	case "msgs": // one write per message
		out = append(out, bounds...)
	case "span": // writes spanning several messages
		for i := 0; i < n; {
			i += 1 + r.IntN(3000)
			if i < n {
				out = append(out, i)
			}
		}
	case "hdr": // split every header at a random offset 1..18
		for _, b := range bounds {
			out = append(out, b+1+r.IntN(18))
		}
		sortInts(out)
	case "rand":
		for k := 0; k < 2+r.IntN(40); k++ {
			out = append(out, 1+r.IntN(n))
		}
		sortInts(out)
	}
	return out
}

var c03Partitions = []string{"one", "bytes", "msgs", "span", "hdr", "rand"}

func c03World(t *testing.T, p c03Params) rt.Result {
	r := rt.Get().Rand("c03w", int(p.Seed))
	var nsent, ndeliv int
	out := hz.Run(t, hz.Opts{Seed: p.Seed, HookMode: p.Hook, EOFWithData: mix(p.Seed)%3 == 0}, func(w *hz.World) {
		ps := hz.StdPeer("10.0.1.1")
		ps.Passive = p.Dir == "in"
		hr := rand.New(rand.NewPCG(p.Seed, 99))
		notif := &corebgp.Notification{Code: uint8(1 + r.IntN(6)), Subcode: uint8(r.IntN(12)), Data: []byte{1, 2, 3}[:r.IntN(4)]}
		ps.Cfg.OnUpdate = func(s *hz.Session, idx int, body []byte) *corebgp.Notification {
			if p.SlowH {
				switch hr.IntN(4) {
				case 0:
					time.Sleep(time.Duration(1 + hr.IntN(1000)))
				case 1:
					time.Sleep(time.Duration(hr.IntN(10)) * time.Millisecond)
				}
			}
			if idx == p.NotifAt {
				return notif
			}
			return nil
		}
		if p.SlowEst {
			ps.Cfg.OnEst = func(*hz.Session) { time.Sleep(5 * time.Millisecond) }
		}
		st := stEstablished
		if p.Glue {
			st = stOpenConfirm
		}
		v := pickVariety(r, p.Dir)
		v.Slow = false // C03 has its own slow-callback variants
		v.apply(&ps, p.Seed)
		s := bringV(w, ps, p.Dir, st, v)
		if s == nil {
			return
		}
		rc := s.rc
		sess0 := len(s.mon.Sessions)
		if !p.Glue {
			sess0--
		}
		base := len(rc.Msgs())
		var stream []byte
		var bounds []int
		var sent [][]byte
		if p.Glue {
			stream = append(stream, wire.Keepalive()...)
		}
		for i := 0; i < p.N; i++ {
			bounds = append(bounds, len(stream))
			if r.IntN(5) == 0 {
				stream = append(stream, wire.Keepalive()...)
				continue
			}
			b := c03Body(r, rc.ID, len(sent))
			sent = append(sent, b)
			stream = append(stream, wire.Update(b)...)
		}
		nsent = len(sent)
		switch p.End {
		case "badhdr":
			stream = append(stream, wire.RawHeader(make([]byte, 16), 19, 4)...)
		case "notif":
			stream = append(stream, wire.Notification(6, 0, nil)...)
		case "finmid":
			// the stream ends inside a message: the header announces more octets than
			// follow before the FIN. What did arrive is not a message.
			l := 8 + r.IntN(60)
			m := wire.Update(make([]byte, l))
			stream = append(stream, m[:19+r.IntN(l)]...)
		}
		if len(bounds) > 0 && bounds[0] == 0 {
			bounds = bounds[1:]
		}
		rc.W.Log.Add("tx", ps.Addr.String(), rc.ID, fmt.Sprintf("stream of %d messages (%d UPDATEs, %d bytes) partition=%s", p.N, len(sent), len(stream), p.Partition), "")
		rc.SendCuts(stream, c03Cuts(r, p.Partition, len(stream), bounds), time.Nanosecond)
		if p.End == "fin" || p.End == "finmid" {
			rc.Pair.Configure(func(pp *memnet.Pair) { pp.WriteAfterPeerCloseOK = true })
			rc.Close()
		}
		time.Sleep(time.Duration(p.N)*11*time.Millisecond + 10*time.Millisecond)
		w.Settle()

		_, _, ss := s.mon.Snapshot()
		ss = ss[sess0:]
		if len(ss) != 1 {
			w.Violate("expected exactly one session on this connection, plugin saw %d", len(ss))
			return
		}
		want := sent
		if p.NotifAt >= 0 && p.NotifAt < len(sent) {
			want = sent[:p.NotifAt+1]
		}
		got := ss[0].Updates
		ndeliv = len(got)
		if len(got) != len(want) {
			w.Violate("handler invoked %d times, %d UPDATEs were sent%s", len(got), len(want), map[bool]string{true: " up to and including the one answered by a NOTIFICATION", false: ""}[p.NotifAt >= 0])
		}
		for i := 0; i < len(got) && i < len(want); i++ {
			if !bytes.Equal(got[i].Body, want[i]) {
				w.Violate("delivery %d differs from UPDATE %d sent: got %d bytes %x.., sent %d bytes %x.. (lost, duplicated, reordered or altered)", i, i, len(got[i].Body), head(got[i].Body), len(want[i]), head(want[i]))
				break
			}
		}
		after := sansEcho(rc.Msgs()[base:])
		eof, _ := rc.EOF()
		if p.NotifAt >= 0 && p.NotifAt < len(sent) {
			wn := &wire.Notif{Code: notif.Code, Sub: notif.Subcode, Data: notif.Data}
			ns := notifsOf(after)
			if len(ns) != 1 || ns[0].String() != wn.String() {
				w.Violate("handler returned NOTIFICATION %v; wire shows %v", wn, ns)
			}
			if !eof {
				w.Violate("connection not closed after the handler's NOTIFICATION")
			}
			if ss[0].CloseExit < 0 {
				w.Violate("OnClose not delivered after the handler's NOTIFICATION")
			}
		} else if p.End != "" {
			// every UPDATE that precedes the end of the connection was delivered (checked
			// above); the session then ends exactly once
			if ss[0].CloseExit < 0 {
				w.Violate("stream followed by %s: OnClose not delivered", p.End)
			}
			ns := notifsOf(after)
			if p.End == "badhdr" && (len(ns) != 1 || ns[0].Code != 1 || ns[0].Sub != 1) {
				w.Violate("stream followed by a bad marker: expected NOTIFICATION(1,1), got %v", ns)
			}
			if p.End != "badhdr" && len(ns) != 0 {
				w.Violate("stream followed by %s: corebgp sent %v", p.End, ns)
			}
		} else {
			if eof || len(notifsOf(after)) > 0 {
				w.Violate("session ended during a well-formed UPDATE stream: %s eof=%v", typesOf(after), eof)
			}
		}
	})
	return worldResult(out, nsent > 0, fmt.Sprintf("|%s %s g%v n%v se%v sh%v %s", p.Dir, p.Partition, p.Glue, p.NotifAt >= 0, p.SlowEst, p.SlowH, p.End),
		map[string]int{"updates_sent": nsent, "updates_delivered": ndeliv, "streams": 1})
}

func head(b []byte) []byte {
	if len(b) > 8 {
		return b[:8]
	}
	return b
}

func TestC03(t *testing.T) {
	c := rt.Get()
	n := c.N(12000, 500000)
	for i := 0; i < n; i++ {
		if !c.Mine("stream", i) {
			continue
		}
		r := c.Rand("c03", i)
		p := c03Params{Dir: allDirs[r.IntN(2)], N: 1 + r.IntN(60), Glue: r.IntN(3) == 0, NotifAt: -1, SlowEst: r.IntN(4) == 0, SlowH: r.IntN(2) == 0,
			Partition: c03Partitions[r.IntN(len(c03Partitions))], Seed: uint64(i)*668265263 + c.Seed, Hook: hookMode(r)}
		if r.IntN(4) == 0 {
			p.NotifAt = r.IntN(p.N)
		} else if r.IntN(3) == 0 {
			p.End = []string{"fin", "badhdr", "notif", "finmid"}[r.IntN(4)]
		}
		if p.Partition == "bytes" && p.N > 12 {
			p.N = 12 // 1-byte writes of large messages are slow; keep them short
		}
		runCase(t, "stream", i, p, func(t *testing.T) rt.Result { return c03World(t, p) })
	}
}
