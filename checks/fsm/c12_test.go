package fsm

import (
	"fmt"
	"math/rand/v2"
	"net/netip"
	"sync"
	"testing"
	"time"

	"github.com/jwhited/corebgp"

	"verif/internal/hz"
	"verif/internal/ref"
	"verif/internal/rt"
	"verif/internal/wire"
)

// C12: protocol errors damp the peer (60 s, doubling to 300 s, amnesia after
// 300 s); Cease, TCP faults and local shutdown do not.

type c12Step struct {
	Src   string // rx-notif | hdr | open | fsm | hold | plug-open | plug-upd   (damping)   | cease-rx | close | rst | readd | plug-cease (non-damping)
	Code  uint8  // for rx-notif
	State string
	Dir   string
	Both  bool // a second connection (other direction, OpenSent) exists when the error happens
	// DeltaMS: time between the previous protocol error and this one (damping steps only); 0 = as soon as possible
	DeltaMS int64
}

type c12Params struct {
	Passive bool
	Steps   []c12Step
	Seed    uint64
	Hook    int
}

var c12Damping = map[string]bool{"rx-notif": true, "hdr": true, "open": true, "fsm": true, "hold": true, "plug-open": true, "plug-upd": true}

const c12Tol = 5 * time.Millisecond

func c12World(t *testing.T, p c12Params) rt.Result {
	nDamp, nProbe := 0, 0
	out := hz.Run(t, hz.Opts{Seed: p.Seed, HookMode: p.Hook, Limit: 24 * time.Hour}, func(w *hz.World) {
		r := rand.New(rand.NewPCG(p.Seed, 12))
		var mu sync.Mutex
		wantOut := false
		plugOpen, plugUpd := (*corebgp.Notification)(nil), (*corebgp.Notification)(nil)
		mkSpec := func() hz.PeerSpec {
			ps := hz.StdPeer("10.0.1.1")
			ps.Hold = 3
			ps.Passive = p.Passive
			ps.IdleHold = time.Second
			ps.ConnectRetry = time.Second
			ps.Cfg.OnOpen = func(int, netip.Addr, []corebgp.Capability) *corebgp.Notification {
				mu.Lock()
				defer mu.Unlock()
				n := plugOpen
				plugOpen = nil
				return n
			}
			ps.Cfg.OnUpdate = func(*hz.Session, int, []byte) *corebgp.Notification {
				mu.Lock()
				defer mu.Unlock()
				n := plugUpd
				plugUpd = nil
				return n
			}
			return ps
		}
		ps := mkSpec()
		w.DialPolicy = func(hz.DialReq) (hz.DialAction, time.Duration) {
			mu.Lock()
			defer mu.Unlock()
			if wantOut {
				wantOut = false
				return hz.DialAccept, 0
			}
			return hz.DialRefuse, 0
		}
		w.MustAddPeer(ps)

		// bringTo moves a fresh connection of direction dir to state st; nil on failure.
		nOut := 0
		bringTo := func(dir, st string) *hz.RConn {
			var rc *hz.RConn
			if dir == "in" {
				rc = w.Connect(ps.Addr)
			} else {
				mu.Lock()
				wantOut = true
				mu.Unlock()
				nOut++
				rc = w.WaitOut(nOut, 5*time.Second)
				if rc == nil {
					w.Violate("active peer made no outbound attempt within 5 s (idle-hold 1 s, connect-retry 1 s) outside a hold-down (dials so far: %d)", len(w.Dials()))
					return nil
				}
			}
			w.Settle()
			if ms := rc.Msgs(); len(ms) != 1 || ms[0].Type != wire.TypeOpen {
				w.Violate("%s connection outside a hold-down did not get an OPEN: [%s]", dir, typesOf(ms))
				return nil
			}
			if st == stOpenSent {
				return rc
			}
			rc.SendOpen(rc.StdOpen(ps.RemoteAS, 3, remoteIDu))
			w.Settle()
			if st == stOpenConfirm {
				return rc
			}
			rc.SendKeepalive()
			w.Settle()
			if m := w.Mon(ps.Addr); m == nil || !m.Up() {
				w.Violate("session did not establish outside a hold-down")
				return nil
			}
			return rc
		}
		// probe opens an inbound connection and reports whether corebgp served it (sent an OPEN)
		probe := func() (served bool, rc *hz.RConn) {
			rc = w.Connect(ps.Addr)
			w.Settle()
			nProbe++
			return len(rc.Msgs()) > 0, rc
		}
		dismiss := func(rc *hz.RConn) { // get rid of a served probe without damping: Cease or a TCP failure
			switch r.IntN(3) {
			case 0:
				rc.SendNotification(6, 0, nil)
			case 1:
				rc.Close()
			default:
				rc.Reset()
			}
			w.Settle()
		}

		var hist []time.Duration // times of protocol errors (for the back-off model)
		var lastErr time.Duration = -1
		holdDownEnd := time.Duration(0)
		for si, st := range p.Steps {
			desc := fmt.Sprintf("[step %d %+v]", si, st)
			if !c12Damping[st.Src] {
				// ---------- non-damping event, outside any hold-down
				if w.Now() < holdDownEnd+2*time.Second {
					time.Sleep(holdDownEnd + 2*time.Second - w.Now())
				}
				if st.Src == "readd" {
					if err := w.DeletePeer(ps.Addr); err != nil {
						w.Violate("%s DeletePeer: %v", desc, err)
						return
					}
					ps = mkSpec()
					w.MustAddPeer(ps)
					hist, lastErr = nil, -1 // a new peer starts without history
				} else {
					rc := bringTo(st.Dir, st.State)
					if rc == nil {
						return
					}
					switch st.Src {
					case "cease-rx":
						rc.SendNotification(6, uint8(r.IntN(9)), nil)
					case "close":
						rc.Close()
					case "rst":
						rc.Reset()
					case "plug-cease":
						n := &corebgp.Notification{Code: 6, Subcode: 2}
						mu.Lock()
						if st.State == stEstablished {
							plugUpd = n
						} else {
							plugOpen = n
						}
						mu.Unlock()
						if st.State == stEstablished {
							rc.SendUpdate([]byte{0, 0, 0, 0})
						} else if st.State == stOpenSent {
							rc.SendOpen(rc.StdOpen(ps.RemoteAS, 3, remoteIDu))
						} else {
							rc.SendNotification(6, 0, nil)
						}
					}
				}
				w.Settle()
				served, prc := probe()
				if !served {
					w.Violate("%s a %s must not start a hold-down, but an inbound connection 1 ms later was refused", desc, st.Src)
					return
				}
				dismiss(prc)
				continue
			}

			// ---------- damping event
			target := w.Now() + 2500*time.Millisecond
			if lastErr >= 0 && st.DeltaMS > 0 {
				if t := lastErr + time.Duration(st.DeltaMS)*time.Millisecond; t > target && t > holdDownEnd+2600*time.Millisecond {
					target = t
				}
			}
			if target < holdDownEnd+2600*time.Millisecond {
				target = holdDownEnd + 2600*time.Millisecond
			}
			lead := 2500 * time.Millisecond
			if st.Src == "hold" {
				lead = 0
			}
			time.Sleep(target - lead - w.Now())
			var second *hz.RConn
			rc := bringTo(st.Dir, st.State)
			if rc == nil {
				return
			}
			if st.Both && st.State != stEstablished && !p.Passive {
				od := map[string]string{"in": "out", "out": "in"}[st.Dir]
				second = bringTo(od, stOpenSent)
				if second == nil {
					return
				}
			}
			if st.Src != "hold" && w.Now() < target {
				time.Sleep(target - w.Now())
			}
			T := w.Now()
			switch st.Src {
			case "rx-notif":
				rc.SendNotification(st.Code, uint8(r.IntN(12)), []byte{1, 2}[:r.IntN(3)])
			case "hdr":
				rc.SendMsg("BAD-MARKER", wire.RawHeader(make([]byte, 16), 19, 4))
			case "open":
				o := rc.StdOpen(ps.RemoteAS, 3, remoteIDu)
				o.Version = 3
				rc.SendOpen(o)
			case "fsm":
				switch st.State {
				case stOpenSent:
					rc.SendKeepalive()
				case stOpenConfirm:
					rc.SendUpdate([]byte{0, 0, 0, 0})
				default:
					rc.SendOpen(rc.StdOpen(ps.RemoteAS, 3, remoteIDu))
				}
			case "plug-open":
				mu.Lock()
				plugOpen = &corebgp.Notification{Code: uint8(1 + r.IntN(5)), Subcode: 1}
				mu.Unlock()
				rc.SendOpen(rc.StdOpen(ps.RemoteAS, 3, remoteIDu))
			case "plug-upd":
				mu.Lock()
				plugUpd = &corebgp.Notification{Code: 3, Subcode: uint8(1 + r.IntN(11))}
				mu.Unlock()
				rc.SendUpdate([]byte{0, 0, 0, 0})
			case "hold":
				// silence until the hold timer (3 s; 4 min in OpenSent) expires
				lim := 4 * time.Second
				if st.State == stOpenSent {
					lim = 241 * time.Second
				}
				if !rc.WaitEOF(lim) {
					w.Violate("%s hold timer did not expire", desc)
					return
				}
				_, T = rc.EOF()
			}
			// a new inbound connection at the very instant of the protocol error: served or
			// not, it is gone once the peer is held down
			var racer *hz.RConn
			if st.Src != "hold" && r.IntN(3) == 0 {
				racer = w.Connect(ps.Addr)
			}
			w.Settle()
			if racer != nil {
				if eof, _ := racer.EOF(); !eof {
					w.Violate("%s an inbound connection that arrived at the instant of the protocol error is still open after it (the peer is held down; the connection saw [%s])", desc, typesOf(racer.Msgs()))
				}
			}
			nDamp++
			hist = append(hist, T)
			lastErr = T
			D := ref.Backoff(hist)
			holdDownEnd = T + D
			// both connections must be gone
			for _, c := range []*hz.RConn{rc, second} {
				if c == nil {
					continue
				}
				if eof, _ := c.EOF(); !eof && !c.OwnClosed() {
					w.Violate("%s connection %d (%s) still open after the protocol error", desc, c.ID, c.Dir)
				}
			}
			dialsBefore := len(w.Dials())
			// refused just before the end of the hold-down
			time.Sleep(T + D - time.Second - w.Now())
			served, prc := probe()
			if served {
				w.Violate("%s protocol error at +%v, hold-down must last %v (history %v), but an inbound connection at +%v was served", desc, T, D, hist, w.Now())
				return
			}
			if n := prc.Received(); n != 0 {
				w.Violate("%s refused inbound connection received %d bytes", desc, n)
			}
			if eof, _ := prc.EOF(); !eof {
				w.Violate("%s inbound connection during the hold-down was not closed", desc)
			}
			if ds := w.Dials(); len(ds) != dialsBefore {
				w.Violate("%s outbound attempt at +%v inside the hold-down [+%v, +%v)", desc, ds[dialsBefore].At, T, T+D)
			}
			// retried when it ends
			time.Sleep(T + D + time.Second - w.Now())
			if !p.Passive {
				ds := w.Dials()
				if len(ds) == dialsBefore {
					w.Violate("%s no outbound attempt by +%v; the hold-down of %v after the error at +%v ended at +%v", desc, w.Now(), D, T, T+D)
					return
				}
				if at := ds[dialsBefore].At; at < T+D-c12Tol || at > T+D+c12Tol {
					w.Violate("%s first outbound attempt after the hold-down at +%v, expected at +%v (error at +%v, hold-down %v, history %v)", desc, at, T+D, T, D, hist)
				}
			}
			served, prc = probe()
			if !served {
				w.Violate("%s inbound connection 1 s after the hold-down ended (+%v, hold-down %v after +%v) was refused", desc, w.Now(), D, T)
				return
			}
			dismiss(prc)
		}
		if p.Passive {
			time.Sleep(10 * time.Second)
			if n := len(w.Dials()); n != 0 {
				w.Violate("a passive peer made %d outbound attempt(s) in a history of protocol errors and hold-downs", n)
			}
		}
	})
	return worldResult(out, nDamp > 0, fmt.Sprintf("|%v %v", p.Passive, p.Steps), map[string]int{"protocol_errors": nDamp, "probes": nProbe, "histories": 1})
}

func TestC12(t *testing.T) {
	c := rt.Get()
	srcs := []string{"rx-notif", "hdr", "open", "fsm", "hold", "plug-open", "plug-upd"}
	nonDamp := []string{"cease-rx", "close", "rst", "readd", "plug-cease"}
	exact := map[string]bool{"rx-notif": true, "hdr": true, "open": true, "fsm": true, "plug-open": true, "plug-upd": true}
	deltas := []int64{0, 100000, 239000, 299000, 299990, 300010, 301000, 1000000}
	codes := []uint8{1, 2, 3, 4, 5, 7, 8, 0, 255}
	n := c.N(6000, 400000)
	maxLen := c.N(4, 6)
	for i := 0; i < n; i++ {
		if !c.Mine("hist", i) {
			continue
		}
		r := c.Rand("c12", i)
		p := c12Params{Passive: r.IntN(3) == 0, Seed: uint64(i)*2147483647 + c.Seed, Hook: hookMode(r)}
		prevDamp := ""
		for k := 1 + r.IntN(maxLen); k > 0; k-- {
			if r.IntN(4) == 0 {
				st := c12Step{Src: nonDamp[r.IntN(len(nonDamp))], State: allStates[r.IntN(3)], Dir: allDirs[r.IntN(2)]}
				if st.Src == "plug-cease" && st.State == stOpenConfirm {
					st.State = stOpenSent
				}
				if p.Passive {
					st.Dir = "in"
				}
				p.Steps = append(p.Steps, st)
				continue
			}
			st := c12Step{Src: srcs[r.IntN(len(srcs))], State: allStates[r.IntN(3)], Dir: allDirs[r.IntN(2)], Both: r.IntN(3) == 0, DeltaMS: deltas[r.IntN(len(deltas))]}
			if i < len(srcs)*6 && len(p.Steps) == 0 { // make sure every (source, state, direction) combination occurs as a first error
				st.Src, st.State, st.Dir = srcs[i%len(srcs)], allStates[(i/len(srcs))%3], allDirs[(i/len(srcs)/3)%2]
			}
			switch st.Src {
			case "open", "plug-open":
				st.State = stOpenSent
			case "plug-upd":
				st.State = stEstablished
			case "rx-notif":
				st.Code = codes[r.IntN(len(codes))]
			case "hold":
				if st.State == stOpenSent && r.IntN(4) != 0 {
					st.State = stEstablished
				}
			}
			if p.Passive {
				st.Dir = "in"
			}
			// exactly 300 s after the previous error (the boundary of "300 s without one"):
			// only where corebgp sees both errors at the virtual instants the remote caused
			// them, i.e. no timer-driven error and no virtual delays at the schedule points
			if exact[st.Src] && exact[prevDamp] && p.Hook != hz.HookVSleep && r.IntN(4) == 0 {
				st.DeltaMS = 300000
			}
			prevDamp = st.Src
			p.Steps = append(p.Steps, st)
		}
		runCase(t, "hist", i, p, func(t *testing.T) rt.Result { return c12World(t, p) })
	}
}
