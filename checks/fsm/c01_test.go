package fsm

import (
	"encoding/binary"
	"fmt"
	"math/rand/v2"
	"net/netip"
	"sync"
	"sync/atomic"
	"testing"
	"time"

	"verif/internal/hz"
	"verif/internal/memnet"
	"verif/internal/rt"
	"verif/internal/wire"
)

// C01: one Established session per peer; well-formed plugin callback history,
// under seeded adversarial worlds. The online part of the oracle is the plugin
// automaton (hz.PeerMon); the offline part joins plugin log, wire logs (nonces,
// UPDATE ids) and the transition log.

type c01Params struct {
	Seed  uint64
	Mode  string // vsleep | yield
	Peers int
}

var c01Addrs = []string{"10.0.1.1", "10.0.1.2", "10.0.1.3"}

// remoteScript drives one connection from the remote side with a seeded
// hostile script.
func remoteScript(w *hz.World, rc *hz.RConn, rr *rand.Rand, ras uint32, rid uint32, stop *atomic.Bool, nEst *atomic.Int64) {
	if rr.IntN(8) == 0 { // close before anything
		time.Sleep(time.Duration(rr.IntN(3000)))
		rc.Close()
		return
	}
	rc.WaitMsgs(1, 5*time.Second)
	polite := rr.IntN(10) < 6
	upd := 0
	desync := false // set once a partial message has been sent: later bytes are not message aligned
	sendUpd := func() {
		b := make([]byte, 10+rr.IntN(24))
		if desync {
			rc.SendUpdate(b) // unidentified: it may be swallowed by the partial message
			return
		}
		b[0], b[1] = 0xC0, 0x01 // marks an UPDATE that carries (connection, index)
		binary.BigEndian.PutUint32(b[2:], uint32(rc.ID))
		binary.BigEndian.PutUint32(b[6:], uint32(upd))
		upd++
		rc.SendUpdate(b)
	}
	pause := func() {
		switch rr.IntN(6) {
		case 0:
		case 1:
			time.Sleep(time.Duration(rr.IntN(2000)))
		case 2:
			time.Sleep(time.Duration(rr.IntN(3000)) * time.Microsecond)
		case 3:
			time.Sleep(time.Duration(rr.IntN(10000)) * time.Millisecond)
		default:
			time.Sleep(time.Duration(rr.IntN(300)) * time.Microsecond)
		}
	}
	if polite {
		pause()
		rc.SendOpen(rc.StdOpen(ras, uint16([]int{0, 3, 30, 90}[rr.IntN(4)]), rid))
		pause()
		rc.SendKeepalive()
		nEst.Add(1)
		for k := rr.IntN(8); k > 0 && !stop.Load(); k-- {
			pause()
			if rr.IntN(3) == 0 {
				rc.SendKeepalive()
			} else {
				sendUpd()
			}
		}
	}
	for steps := rr.IntN(7); steps > 0 && !stop.Load(); steps-- {
		if eof, _ := rc.EOF(); eof {
			return
		}
		pause()
		switch rr.IntN(12) {
		case 0:
			rc.SendOpen(rc.StdOpen(ras, 90, rid))
		case 1:
			o := rc.StdOpen(ras, 90, rid)
			o.Version = 3
			rc.SendOpen(o)
		case 2, 3:
			rc.SendKeepalive()
		case 4, 5:
			sendUpd()
		case 6:
			rc.SendNotification(6, uint8(rr.IntN(9)), nil)
		case 7:
			rc.SendNotification(uint8(1+rr.IntN(5)), uint8(rr.IntN(5)), []byte{1}[:rr.IntN(2)])
		case 8:
			g := make([]byte, 1+rr.IntN(40))
			for i := range g {
				g[i] = byte(rr.Uint32())
			}
			rc.SendMsg("GARBAGE", g)
			desync = true
		case 9:
			hb := make([]byte, 30)
			for i := range hb {
				hb[i] = 0xEE
			}
			m := wire.Update(hb)
			rc.SendMsg("HALF-MESSAGE", m[:1+rr.IntN(len(m)-1)])
			desync = true
		case 10:
			rc.Close()
			return
		case 11:
			rc.Reset()
			return
		}
	}
	switch rr.IntN(4) {
	case 0:
		rc.Close()
	case 1:
		rc.Reset()
	case 2:
		rc.SendNotification(6, 0, nil)
	}
}

func c01World(t *testing.T, p c01Params) rt.Result {
	var nEst atomic.Int64
	sessions, conns, unmatched := 0, 0, 0
	mode := hz.HookVSleep
	if p.Mode == "yield" {
		mode = hz.HookYield
	}
	out := hz.Run(t, hz.Opts{Seed: p.Seed, HookMode: mode, Limit: 2 * time.Hour}, func(w *hz.World) {
		r := rand.New(rand.NewPCG(p.Seed, 1))
		var stop atomic.Bool
		var awg sync.WaitGroup
		var cnt atomic.Int64
		var pmu sync.Mutex
		type pinfo struct {
			ps  hz.PeerSpec
			rid uint32
		}
		peers := map[netip.Addr]*pinfo{}
		var allMons []*hz.PeerMon
		polR := rand.New(rand.NewPCG(p.Seed, 2))
		w.DialPolicy = func(hz.DialReq) (hz.DialAction, time.Duration) {
			pmu.Lock()
			defer pmu.Unlock()
			switch polR.IntN(8) {
			case 0, 1:
				return hz.DialRefuse, 0
			case 2:
				return hz.DialStall, 0
			case 3:
				return hz.DialAccept, time.Duration(polR.IntN(5000))
			}
			return hz.DialAccept, 0
		}
		w.OnOut = func(rc *hz.RConn) {
			awg.Add(1)
			defer awg.Done()
			pmu.Lock()
			pi := peers[rc.PeerIP]
			pmu.Unlock()
			rid, ras := uint32(remoteIDu), uint32(remoteAS)
			if pi != nil {
				rid, ras = pi.rid, pi.ps.RemoteAS
			}
			remoteScript(w, rc, rand.New(rand.NewPCG(p.Seed, uint64(1000+cnt.Add(1)))), ras, rid, &stop, &nEst)
		}
		addPeer := func(a netip.Addr, rr *rand.Rand) {
			ps := hz.StdPeer(a.String())
			ps.Passive = rr.IntN(3) == 0
			ps.Hold = []int{-1, 0, 3, 9}[rr.IntN(4)]
			ps.IdleHold = []time.Duration{time.Millisecond, 50 * time.Millisecond, time.Second, 5 * time.Second}[rr.IntN(4)]
			ps.ConnectRetry = []time.Duration{2 * time.Millisecond, time.Second, 5 * time.Second}[rr.IntN(3)]
			ps.Cfg.ProbeWriteInClose = true
			pi := &pinfo{ps: ps, rid: remoteIDu}
			if rr.IntN(2) == 0 {
				pi.rid = localIDu - 1 - uint32(rr.IntN(5)) // local dominant
			}
			m, err := w.AddPeer(ps)
			if err == nil {
				pmu.Lock()
				peers[a] = pi
				allMons = append(allMons, m)
				pmu.Unlock()
			}
		}
		inbound := func(a netip.Addr, rr *rand.Rand) {
			pmu.Lock()
			pi := peers[a]
			pmu.Unlock()
			rid, ras := uint32(remoteIDu), uint32(remoteAS)
			if pi != nil {
				rid, ras = pi.rid, pi.ps.RemoteAS
			}
			rc := w.Connect(a)
			rc.Pair.Configure(func(pp *memnet.Pair) {
				if rr.IntN(6) == 0 {
					pp.MaxRead = 1 + rr.IntN(5)
				}
				if rr.IntN(12) == 0 {
					pp.FailWriteAt = 1 + rr.IntN(4)
				}
				if rr.IntN(12) == 0 {
					pp.FailReadAt = 1 + rr.IntN(6)
				}
			})
			awg.Add(1)
			go func() {
				defer awg.Done()
				remoteScript(w, rc, rand.New(rand.NewPCG(p.Seed, uint64(1000+cnt.Add(1)))), ras, rid, &stop, &nEst)
			}()
		}
		var addrs []netip.Addr
		for k := 0; k < p.Peers; k++ {
			addrs = append(addrs, netip.MustParseAddr(c01Addrs[k]))
		}
		end := time.Duration(5+r.IntN(40)) * time.Millisecond
		if r.IntN(4) == 0 {
			end = time.Duration(1+r.IntN(20)) * time.Second
		}
		if p.Mode == "vsleep" {
			// the director alone uses the registry API
			for _, a := range addrs {
				addPeer(a, r)
			}
			for w.Now() < end {
				time.Sleep(end / time.Duration(8+r.IntN(30)))
				a := addrs[r.IntN(len(addrs))]
				switch r.IntN(10) {
				case 0:
					w.DeletePeer(a)
				case 1:
					addPeer(a, r)
				default:
					inbound(a, r)
				}
			}
		} else {
			// every API actor owns one address; arrivals are not gated
			for k, a := range addrs {
				awg.Add(1)
				go func(k int, a netip.Addr) {
					defer awg.Done()
					rr := rand.New(rand.NewPCG(p.Seed, uint64(50+k)))
					addPeer(a, rr)
					for w.Now() < end && !stop.Load() {
						time.Sleep(end / time.Duration(6+rr.IntN(20)))
						switch rr.IntN(8) {
						case 0:
							w.DeletePeer(a)
						case 1:
							addPeer(a, rr)
						case 2:
							w.Srv.ListPeers()
						case 3:
							w.Srv.GetPeer(a)
						default:
							inbound(a, rr)
						}
					}
				}(k, a)
			}
			time.Sleep(end)
		}
		w.Close()
		stop.Store(true)
		awg.Wait()
		w.Settle()

		// ---------------- offline join
		pmu.Lock()
		mons := append([]*hz.PeerMon(nil), allMons...)
		pmu.Unlock()
		// nonce issued by GetCapabilities -> (monitor, seq)
		type issue struct {
			m   *hz.PeerMon
			seq int
		}
		issued := map[uint32]issue{}
		getCaps := map[netip.Addr]int{}
		for _, m := range mons {
			gc, _, ss := m.Snapshot()
			sessions += len(ss)
			for _, g := range gc {
				if _, dup := issued[g.Nonce]; dup {
					w.Violate("harness: duplicate local nonce %08x", g.Nonce)
				}
				issued[g.Nonce] = issue{m, g.Seq}
			}
			getCaps[m.Addr] += len(gc)
		}
		usedBy := map[uint32]int{}
		opensOnWire := map[netip.Addr]int{}
		noOpen := map[netip.Addr]int{}
		openSeq := map[int]int{} // conn id -> seq of the OPEN corebgp sent on it
		for _, rc := range w.Conns() {
			if rc.Refused {
				continue
			}
			conns++
			ms := rc.Msgs()
			nOpen := 0
			for i, m := range ms {
				if m.Type != wire.TypeOpen {
					continue
				}
				nOpen++
				if i != 0 {
					w.Violate("conn %d: OPEN is not the first message corebgp sent (%s)", rc.ID, typesOf(ms))
				}
				var nonce *uint32
				for _, c := range m.Open.AllCaps() {
					if c.Code == hz.CapLocalNonce && len(c.Value) == 4 {
						v := binary.BigEndian.Uint32(c.Value)
						nonce = &v
					}
				}
				if nonce == nil {
					w.Violate("conn %d: OPEN without the capability returned by GetCapabilities", rc.ID)
					continue
				}
				is, ok := issued[*nonce]
				switch {
				case !ok:
					w.Violate("conn %d: OPEN carries nonce %08x that no GetCapabilities call returned", rc.ID, *nonce)
				case is.seq > m.Seq:
					w.Violate("conn %d: OPEN (event #%d) precedes the GetCapabilities call (#%d) whose result it carries", rc.ID, m.Seq, is.seq)
				case is.m.Addr != rc.PeerIP:
					w.Violate("conn %d to %s: OPEN carries capabilities obtained for peer %s", rc.ID, rc.PeerIP, is.m.Addr)
				}
				if prev, dup := usedBy[*nonce]; dup {
					w.Violate("one GetCapabilities result (nonce %08x) was used for two connections (%d and %d): GetCapabilities not invoked once per connection", *nonce, prev, rc.ID)
				}
				usedBy[*nonce] = rc.ID
				openSeq[rc.ID] = m.Seq
			}
			if nOpen > 1 {
				w.Violate("conn %d: %d OPENs sent on one connection", rc.ID, nOpen)
			}
			if nOpen == 1 {
				opensOnWire[rc.PeerIP]++
			} else {
				noOpen[rc.PeerIP]++
			}
		}
		for a, n := range getCaps {
			extra := n - opensOnWire[a]
			unmatched += extra
			// a GetCapabilities call without an OPEN on the wire is legitimate only
			// when the OPEN could not be written (connection already gone)
			if extra > noOpen[a] {
				w.Violate("peer %s: GetCapabilities invoked %d times but only %d OPENs were sent and only %d connections ended without an OPEN: more than one call per connection", a, n, opensOnWire[a], noOpen[a])
			}
		}
		for _, m := range mons {
			_, opens, ss := m.Snapshot()
			seenConn := map[int64]bool{}
			for _, o := range opens {
				if o.Nonce < 0 {
					w.Violate("[%s] OnOpenMessage without the capability the remote put in its OPEN", m.Addr)
					continue
				}
				if seenConn[o.Nonce] {
					w.Violate("[%s] OnOpenMessage invoked twice for connection %d", m.Addr, o.Nonce)
				}
				seenConn[o.Nonce] = true
				if s, ok := openSeq[int(o.Nonce)]; !ok || s > o.Seq {
					w.Violate("[%s] OnOpenMessage for connection %d (event #%d) before corebgp's own OPEN was sent on it", m.Addr, o.Nonce, o.Seq)
				}
			}
			for _, s := range ss {
				conn := int64(-1)
				next := uint32(0)
				for i, u := range s.Updates {
					if len(u.Body) < 10 || u.Body[0] != 0xC0 || u.Body[1] != 0x01 {
						continue // not an identified UPDATE (e.g. a half message completed by later bytes)
					}
					c, k := int64(binary.BigEndian.Uint32(u.Body[2:])), binary.BigEndian.Uint32(u.Body[6:])
					if conn >= 0 && c != conn {
						w.Violate("[%s] session epoch %d received UPDATEs from two connections (%d and %d)", m.Addr, s.Epoch, conn, c)
						break
					}
					conn = c
					if k != next {
						w.Violate("[%s] epoch %d delivery %d carries index %d of connection %d, expected %d (lost/duplicated/reordered)", m.Addr, s.Epoch, i, k, c, next)
						break
					}
					next++
				}
				if s.CloseExit < 0 {
					w.Violate("[%s] epoch %d: OnEstablished without OnClose by the end of the world", m.Addr, s.Epoch)
				}
			}
		}
		// transition log: never both FSMs of a peer established
		st := map[string]string{}
		for _, tr := range w.Trans {
			st[tr.Peer+"/"+tr.Dir] = tr.To
			o := "in"
			if tr.Dir == "in" {
				o = "out"
			}
			if tr.To == "established" && st[tr.Peer+"/"+o] == "established" {
				w.Violate("[%s] transition log: FSM-%s approved into established while FSM-%s is established (event #%d)", tr.Peer, tr.Dir, o, tr.Seq)
			}
		}
	})
	return worldResult(out, sessions > 0, "", map[string]int{"worlds": 1, "sessions": sessions, "connections": conns, "getcaps_without_open": unmatched, "handshakes_attempted": int(nEst.Load())})
}

func TestC01(t *testing.T) {
	c := rt.Get()
	n := c.N(24000, 400000)
	for i := 0; i < n; i++ {
		if !c.Mine("worlds", i) {
			continue
		}
		r := c.Rand("c01", i)
		p := c01Params{Seed: uint64(i)*7046029254386353131 + c.Seed, Mode: []string{"vsleep", "yield"}[i%2], Peers: 1 + r.IntN(3)}
		runCase(t, "worlds", i, p, func(t *testing.T) rt.Result { return c01World(t, p) })
	}
	_ = fmt.Sprint
}
