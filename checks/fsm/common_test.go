package fsm

import (
	"bytes"
	"fmt"
	"math/rand/v2"
	"net/netip"
	"os"
	"strings"
	"sync"
	"testing"
	"time"

	"github.com/jwhited/corebgp"

	"verif/internal/hz"
	"verif/internal/rt"
	"verif/internal/wire"
)

const (
	localAS   = 65001
	remoteAS  = 65002
	localIDu  = 0x0a000001 // 10.0.0.1
	remoteIDu = 0x0a000101 // 10.0.1.1
)

var peerA = netip.MustParseAddr("10.0.1.1")

// runCase wraps one case: shard filter, START/END records, subtest isolation,
// process exit when the world left goroutines behind.
func runCase(t *testing.T, family string, idx int, params any, fn func(t *testing.T) rt.Result) {
	c := rt.Get()
	if !c.Mine(family, idx) {
		return
	}
	for rep := 0; rep < c.Reps; rep++ {
		c.Start(family, idx, params)
		var res rt.Result
		fatal := false
		t.Run(fmt.Sprintf("%s/%d", family, idx), func(t *testing.T) {
			defer func() {
				if r := recover(); r != nil {
					res = rt.Violated(fmt.Sprintf("harness or corebgp panic in director goroutine: %v", r), nil)
					fatal = true
				}
			}()
			res = fn(t)
		})
		if res.Verdict == "" && os.Getenv("VERIF_RACE") != "" {
			// the race detector fired inside the bubble: synctest.Test ends the
			// subtest with FailNow after the world has completed. The report is in
			// the GORACE log; the world itself finished, so carry on.
			res = rt.Result{Verdict: "held", Sig: "race-detector-fired", Nontrivial: true, Events: map[string]int{"worlds_in_which_the_race_detector_fired": 1}}
		}
		if res.Verdict == "" {
			res = rt.Result{Verdict: "inconclusive", Why: "case produced no verdict (subtest aborted)"}
			fatal = true
		}
		if idx >= 48 {
			res.Sample = nil // samples are only kept for the first cases of a family
		} else if m, ok := res.Sample.(map[string]any); ok {
			m["params"] = params
		} else if res.Sample == nil {
			res.Sample = params
		}
		c.End(family, idx, res)
		if fatal || strings.HasPrefix(res.Why, "FATAL") {
			hz.ExitAfterReport()
		}
	}
}

// worldResult converts the outcome of a world into a case result.
func worldResult(out hz.Outcome, nontrivial bool, extraSig string, events map[string]int) rt.Result {
	res := rt.Result{Verdict: "held", Sig: out.Sig + extraSig, Nontrivial: nontrivial, Events: events}
	if len(out.Trace) > 0 {
		res.Sample = map[string]any{"observed_trace_head": out.Trace, "virtual_time_elapsed": out.Elapsed.String()}
	}
	if res.Events == nil {
		res.Events = map[string]int{}
	}
	for k, v := range out.Hooks {
		res.Events["hook."+k] += v
	}
	if len(out.Violations) > 0 {
		res.Verdict = "violated"
		res.Nontrivial = true
		res.Why = strings.Join(out.Violations, "\n")
		w := map[string]any{"log": out.Log}
		if out.Panic != "" {
			w["panic"] = out.Panic
			w["stacks"] = out.Stacks
		}
		res.Witness = w
		if out.Fatal {
			res.Why = "FATAL " + res.Why
		}
	}
	return res
}

// sess is one peer with one remote connection brought to some FSM state.
type sess struct {
	w   *hz.World
	mon *hz.PeerMon
	rc  *hz.RConn
	ps  hz.PeerSpec
	dir string
}

const (
	stOpenSent    = "OpenSent"
	stOpenConfirm = "OpenConfirm"
	stEstablished = "Established"
)

var allStates = []string{stOpenSent, stOpenConfirm, stEstablished}
var allDirs = []string{"in", "out"}

// bring adds a peer and brings one connection of direction dir to state st
// (as the RFC 4271 FSM names it from corebgp's point of view). It returns nil
// and records a violation when corebgp did not follow the handshake.
func bring(w *hz.World, ps hz.PeerSpec, dir, st string, hold uint16) *sess {
	s := &sess{w: w, ps: ps, dir: dir}
	if dir == "in" {
		s.mon = w.MustAddPeer(ps)
		s.rc = w.Connect(ps.Addr)
	} else {
		first := true
		w.DialPolicy = func(r hz.DialReq) (hz.DialAction, time.Duration) {
			if first && r.Peer == ps.Addr {
				first = false
				return hz.DialAccept, 0
			}
			return hz.DialRefuse, 0
		}
		s.mon = w.MustAddPeer(ps)
		s.rc = w.WaitOut(1, time.Minute)
		if s.rc == nil {
			w.Violate("active peer %s did not dial within a virtual minute", ps.Addr)
			return nil
		}
	}
	w.Settle()
	ms := s.rc.Msgs()
	if len(ms) != 1 || ms[0].Type != wire.TypeOpen {
		w.Violate("expected exactly an OPEN as first message on the %s connection, got %v", dir, ms)
		return nil
	}
	if st == stOpenSent {
		return s
	}
	s.rc.SendOpen(s.rc.StdOpen(ps.RemoteAS, hold, remoteIDu))
	w.Settle()
	ms = s.rc.Msgs()
	if len(ms) != 2 || ms[1].Type != wire.TypeKeepalive {
		w.Violate("expected KEEPALIVE in reply to a valid OPEN on the %s connection, got %v", dir, ms)
		return nil
	}
	if st == stOpenConfirm {
		return s
	}
	s.rc.SendKeepalive()
	w.Settle()
	for i := 0; i < 20 && !s.mon.Up(); i++ { // OnEstablished itself may take virtual time
		w.Settle()
	}
	if !s.mon.Up() {
		w.Violate("session did not become Established after the remote's KEEPALIVE (%s connection; plugin state %s)", dir, s.mon.State())
		return nil
	}
	return s
}

// cuts returns a seeded segmentation of a byte stream of length n.
func cuts(r *rand.Rand, n int) []int {
	var out []int
	switch r.IntN(4) {
	case 0: // one write
	case 1: // every byte
		for i := 1; i < n; i++ {
			out = append(out, i)
		}
	case 2: // a few random cuts
		k := 1 + r.IntN(4)
		for i := 0; i < k && n > 1; i++ {
			out = append(out, 1+r.IntN(n-1))
		}
		sortInts(out)
	case 3: // cut inside the first header
		if n > 19 {
			out = append(out, 1+r.IntN(18))
		}
	}
	return out
}

func sortInts(a []int) {
	for i := 1; i < len(a); i++ {
		for j := i; j > 0 && a[j] < a[j-1]; j-- {
			a[j], a[j-1] = a[j-1], a[j]
		}
	}
}

func hookMode(r *rand.Rand) int {
	if r.IntN(4) == 0 {
		return hz.HookOff
	}
	return hz.HookVSleep
}

// notifsOf returns the NOTIFICATIONs among messages.
func notifsOf(ms []hz.RMsg) []*wire.Notif {
	var out []*wire.Notif
	for _, m := range ms {
		if m.Type == wire.TypeNotification {
			out = append(out, m.Notif)
		}
	}
	return out
}

func typesOf(ms []hz.RMsg) string {
	var sb strings.Builder
	for _, m := range ms {
		sb.WriteString(m.Message.String())
		sb.WriteString(" ")
	}
	return sb.String()
}

// bringReused is bring() for the outbound direction on a *reused* FSM object:
// a first outbound session is established and ended by a TCP close (no
// damping), the same fsm dials again, and that second connection is brought
// to state st.
func bringReused(w *hz.World, ps hz.PeerSpec, st string, hold uint16) *sess {
	ps.IdleHold = time.Second
	ndial := 0
	w.DialPolicy = func(hz.DialReq) (hz.DialAction, time.Duration) {
		ndial++
		if ndial <= 2 {
			return hz.DialAccept, 0
		}
		return hz.DialRefuse, 0
	}
	mon := w.MustAddPeer(ps)
	c1 := w.WaitOut(1, time.Minute)
	// the first session negotiates another hold time than the one under test (what an
	// fsm object remembers from it must not matter)
	firstHold := []uint16{hold, 30, 0, 3}[mix(w.O.Seed)%4]
	if c1 == nil || !c1.Handshake(ps.RemoteAS, firstHold, remoteIDu) {
		w.Violate("reuse setup: first outbound session failed")
		return nil
	}
	w.Settle()
	for i := 0; i < 20 && !mon.Up(); i++ {
		w.Settle()
	}
	c1.Close()
	c2 := w.WaitOut(2, time.Minute)
	if c2 == nil {
		w.Violate("reuse setup: no second outbound connection after the first session ended by a TCP close")
		return nil
	}
	w.Settle()
	s := &sess{w: w, mon: mon, rc: c2, ps: ps, dir: "out"}
	if ms := c2.Msgs(); len(ms) != 1 || ms[0].Type != wire.TypeOpen {
		w.Violate("reuse setup: second connection did not start with an OPEN: %s", typesOf(ms))
		return nil
	}
	if st == stOpenSent {
		return s
	}
	c2.SendOpen(c2.StdOpen(ps.RemoteAS, hold, remoteIDu))
	w.Settle()
	if st == stOpenConfirm {
		return s
	}
	c2.SendKeepalive()
	w.Settle()
	for i := 0; i < 20 && !mon.Up(); i++ { // OnEstablished itself may take virtual time
		w.Settle()
	}
	if !mon.Up() {
		w.Violate("reuse setup: second session did not establish")
		return nil
	}
	return s
}

// variety picks per-case variations that no property depends on but that
// exercise different code paths: hold times (incl. 0 on either side), a reused
// outbound fsm object, and callbacks that take a little virtual time so that
// the reader goroutine runs ahead of the FSM.
type variety struct {
	LocalHold  int    // seconds, -1 = library default
	RemoteHold uint16 // proposed by the remote
	Reuse      bool   // outbound only
	PriorIn    bool   // outbound only: an inbound session was Established and ended by a TCP close before
	Slow       bool   // plugin callbacks sleep 0-3 virtual microseconds
	Echo       bool   // the plugin calls WriteUpdate synchronously from OnEstablished and from the update handler
	// Storm (opt-in): that many plugin goroutines per session wait for Kick and then
	// write a burst of UPDATEs, so that corebgp's own messages compete with
	// WriteUpdate calls for the connection
	Storm int
	kick  *kicker
}

type kicker struct {
	ch   chan struct{}
	once sync.Once
}

// withStorm returns v with n background writers per session.
func (v variety) withStorm(n int) variety {
	v.Storm = n
	v.kick = &kicker{ch: make(chan struct{})}
	return v
}

// Kick releases the background writers (idempotent, a no-op without Storm).
func (v variety) Kick() {
	if v.kick != nil {
		v.kick.once.Do(func() { close(v.kick.ch) })
	}
}

func pickVariety(r *rand.Rand, dir string) variety {
	return variety{
		LocalHold:  []int{90, 90, 0, 30, -1}[r.IntN(5)],
		RemoteHold: []uint16{90, 90, 0, 30}[r.IntN(4)],
		Reuse:      dir == "out" && r.IntN(3) == 0,
		Slow:       r.IntN(3) == 0,
		Echo:       r.IntN(3) == 0,
	}.prior(r, dir)
}

func (v variety) prior(r *rand.Rand, dir string) variety {
	if dir == "out" && !v.Reuse && r.IntN(3) == 0 {
		v.PriorIn = true
	}
	return v
}

// echoBody is what an echoing plugin writes; sansEcho removes those UPDATEs from
// what the remote received so that the expectations about corebgp's own messages
// stay exact.
var echoBody = []byte{0xEC, 0x40, 0xEC, 0x40}

func sansEcho(ms []hz.RMsg) []hz.RMsg {
	var out []hz.RMsg
	for _, m := range ms {
		if m.Type == wire.TypeUpdate && bytes.Equal(m.Body, echoBody) {
			continue
		}
		out = append(out, m)
	}
	return out
}

// apply configures the peer spec; existing callbacks are wrapped, not replaced.
func (v variety) apply(ps *hz.PeerSpec, seed uint64) {
	ps.Hold = v.LocalHold
	if !v.Slow && !v.Echo && v.Storm == 0 {
		return
	}
	oc := ps.Cfg.OnCloseFn
	var dmu sync.Mutex
	done := map[*hz.Session]chan struct{}{}
	storm := func(s *hz.Session) {
		if v.Storm == 0 || s == nil || s.Writer == nil {
			return
		}
		ch := make(chan struct{})
		dmu.Lock()
		done[s] = ch
		dmu.Unlock()
		for g := 0; g < v.Storm; g++ {
			gr := rand.New(rand.NewPCG(seed, uint64(9000+g)))
			go func() {
				select {
				case <-v.kick.ch:
				case <-ch:
					return
				}
				for i := 0; i < 40; i++ {
					if s.Writer.WriteUpdate(echoBody) != nil {
						return
					}
					if d := gr.IntN(1500); d > 0 {
						time.Sleep(time.Duration(d))
					}
				}
			}()
		}
	}
	ps.Cfg.OnCloseFn = func(s *hz.Session) {
		dmu.Lock()
		if ch := done[s]; ch != nil {
			close(ch)
			delete(done, s)
		}
		dmu.Unlock()
		if oc != nil {
			oc(s)
		}
	}
	sr := rand.New(rand.NewPCG(seed, 4711))
	var mu sync.Mutex
	nap := func() {
		if !v.Slow {
			return
		}
		mu.Lock()
		d := time.Duration(sr.IntN(3000))
		mu.Unlock()
		time.Sleep(d)
	}
	echo := func(s *hz.Session) {
		if v.Echo && s != nil && s.Writer != nil {
			s.Writer.WriteUpdate(echoBody) // the result is C04's business; here it must return
		}
	}
	oe, oo, ou := ps.Cfg.OnEst, ps.Cfg.OnOpen, ps.Cfg.OnUpdate
	ps.Cfg.OnEst = func(s *hz.Session) {
		nap()
		echo(s)
		storm(s)
		if oe != nil {
			oe(s)
		}
	}
	ps.Cfg.OnOpen = func(call int, rid netip.Addr, caps []corebgp.Capability) *corebgp.Notification {
		nap()
		if oo != nil {
			return oo(call, rid, caps)
		}
		return nil
	}
	ps.Cfg.OnUpdate = func(s *hz.Session, idx int, body []byte) *corebgp.Notification {
		nap()
		echo(s)
		if ou != nil {
			return ou(s, idx, body)
		}
		return nil
	}
}

// bringV is bring() honouring the variety.
func bringV(w *hz.World, ps hz.PeerSpec, dir, st string, v variety) *sess {
	if v.Reuse && dir == "out" {
		return bringReused(w, ps, st, v.RemoteHold)
	}
	if v.PriorIn && dir == "out" {
		return bringAfterInbound(w, ps, st, v.RemoteHold)
	}
	return bring(w, ps, dir, st, v.RemoteHold)
}

// bringAfterInbound: an inbound session is Established and ended by the remote
// closing TCP; corebgp then dials and that outbound connection is brought to st.
func bringAfterInbound(w *hz.World, ps hz.PeerSpec, st string, hold uint16) *sess {
	accept := false
	w.DialPolicy = func(hz.DialReq) (hz.DialAction, time.Duration) {
		if accept {
			accept = false
			return hz.DialAccept, 0
		}
		return hz.DialRefuse, 0
	}
	mon := w.MustAddPeer(ps)
	in := w.Connect(ps.Addr)
	if !in.Handshake(ps.RemoteAS, hold, remoteIDu) {
		w.Violate("history setup: inbound session failed: %s", typesOf(in.Msgs()))
		return nil
	}
	w.Settle()
	for i := 0; i < 20 && !mon.Up(); i++ {
		w.Settle()
	}
	if !mon.Up() {
		w.Violate("history setup: inbound session did not establish")
		return nil
	}
	accept = true
	in.Close()
	oc := w.WaitOut(1, time.Minute)
	if oc == nil {
		w.Violate("history setup: no outbound connection after the inbound session ended")
		return nil
	}
	w.Settle()
	s := &sess{w: w, mon: mon, rc: oc, ps: ps, dir: "out"}
	if ms := oc.Msgs(); len(ms) != 1 || ms[0].Type != wire.TypeOpen {
		w.Violate("history setup: outbound connection did not start with an OPEN: %s", typesOf(ms))
		return nil
	}
	if st == stOpenSent {
		return s
	}
	oc.SendOpen(oc.StdOpen(ps.RemoteAS, hold, remoteIDu))
	w.Settle()
	if ms := oc.Msgs(); len(ms) != 2 || ms[1].Type != wire.TypeKeepalive {
		w.Violate("after an inbound session that ended by a TCP close, a valid OPEN on the next outbound connection was not answered by KEEPALIVE: %s", typesOf(ms))
		return nil
	}
	if st == stOpenConfirm {
		return s
	}
	oc.SendKeepalive()
	w.Settle()
	for i := 0; i < 20 && !mon.Up(); i++ {
		w.Settle()
	}
	if eof, _ := oc.EOF(); eof || !mon.Up() {
		w.Violate("after an inbound session that ended by a TCP close, the next outbound session did not establish: %s", typesOf(oc.Msgs()))
		return nil
	}
	return s
}

// mix is a 64-bit finalizer (splitmix64) for deriving per-case constants from a seed.
func mix(x uint64) uint64 {
	x += 0x9e3779b97f4a7c15
	x = (x ^ (x >> 30)) * 0xbf58476d1ce4e5b9
	x = (x ^ (x >> 27)) * 0x94d049bb133111eb
	return x ^ (x >> 31)
}
