package fsm

import (
	"errors"
	"fmt"
	"math/rand/v2"
	"net"
	"net/netip"
	"sync"
	"testing"
	"time"

	"github.com/jwhited/corebgp"

	"verif/internal/gen"
	"verif/internal/hz"
	"verif/internal/rt"
	"verif/internal/wire"
)

// C05: no remote input and no API sequence crashes or wedges the process.
// A crash kills the child process (the driver attributes it to the case in
// flight); a wedge shows as a bubble deadlock / virtual watchdog; the probe
// checks that other peers are still served afterwards.

type c05Params struct {
	Dir, State string
	Kind       string
	Seed       uint64
	Hook       int
	Reuse      bool // outbound only: the hostile input hits the second connection of a reused fsm object
}

var c05Kinds = []string{"random", "typed", "mut-open", "mut-update", "mut-notif", "mut-keepalive", "flood", "half-close", "open-edge", "lengths", "pair"}

func hostileBytes(r *rand.Rand, kind string, rc *hz.RConn, ras uint32) []byte {
	rb := func(n int) []byte {
		b := make([]byte, n)
		for i := range b {
			b[i] = byte(r.Uint32())
		}
		return b
	}
	mutate := func(m []byte) []byte {
		for k := 1 + r.IntN(3); k > 0; k-- {
			m = gen.Mutate(r, m)
		}
		return m
	}
	switch kind {
	case "random":
		return rb(1 + r.IntN(200))
	case "typed": // valid header, any type, random body
		l := r.IntN(200)
		if r.IntN(10) == 0 {
			l = wire.MaxBody - r.IntN(3)
		}
		return append(wire.RawHeader(nil, uint16(19+l), uint8(r.IntN(256))), rb(l)...)
	case "mut-open":
		return mutate(wire.Msg(wire.TypeOpen, gen.RandOpenBody(r, localIDu, localAS, ras)))
	case "mut-update":
		return mutate(wire.Update(gen.GrammarUpdate(r, 8)))
	case "mut-notif":
		return mutate(wire.Notification(uint8(r.IntN(8)), uint8(r.IntN(12)), rb(r.IntN(8))))
	case "mut-keepalive":
		return mutate(wire.Keepalive())
	case "flood":
		var out []byte
		for k := 50 + r.IntN(400); k > 0; k-- {
			switch r.IntN(4) {
			case 0:
				out = append(out, wire.Keepalive()...)
			case 1:
				out = append(out, wire.Update(rb(r.IntN(64)))...)
			case 2:
				u := gen.UpdateInput(r)
				out = append(out, wire.Update(u[:min(4077, len(u))])...)
			default:
				out = append(out, wire.Msg(wire.TypeOpen, rc.StdOpen(ras, 90, remoteIDu).Body())...)
			}
		}
		return out
	case "pair": // a message that ends the connection, immediately followed by one that cannot be decoded
		var a, b []byte
		switch r.IntN(4) {
		case 0:
			a = wire.Notification(6, 0, nil)
		case 1:
			a = wire.Notification(uint8(1+r.IntN(5)), 0, nil)
		case 2:
			a = wire.Msg(wire.TypeOpen, rc.StdOpen(ras, 90, remoteIDu).Body())
		default:
			a = wire.Keepalive()
		}
		switch r.IntN(6) {
		case 4: // a header with a length field out of range
			b = append(wire.RawHeader(nil, []uint16{18, 0, 4097, 65535}[r.IntN(4)], uint8(1+r.IntN(4))), rb(r.IntN(8))...)
		case 5: // a header with a broken marker
			b = wire.RawHeader(rb(16), 19, 4)
		case 0:
			b = wire.Msg(5, rb(4))
		case 1:
			b = wire.Msg(wire.TypeOpen, rb(r.IntN(9)))
		case 2:
			b = wire.Msg(wire.TypeNotification, rb(r.IntN(2)))
		default:
			b = wire.Msg(uint8(6+r.IntN(250)), rb(r.IntN(30)))
		}
		return append(a, b...)
	case "half-close":
		m := wire.Update(rb(100))
		return m[:1+r.IntN(len(m)-1)]
	case "open-edge":
		// syntactically valid OPENs with edge values
		o := rc.StdOpen(ras, 90, remoteIDu)
		switch r.IntN(6) {
		case 0:
			o.Hold = 0
		case 1:
			o.AS = 0
		case 2:
			o.Params = []wire.Param{wire.CapParam(wire.FourOctetAS(ras), wire.Cap{Code: 99, Value: make([]byte, 245)})}
		case 3:
			o.Params = nil
		case 4:
			o.ID = 0
		case 5:
			o.Params = []wire.Param{{Type: 2, Raw: make([]byte, 255)}}
		}
		return wire.Msg(wire.TypeOpen, o.Body())
	default: // lengths: a valid message with every interesting length field value
		l := []int{0, 1, 18, 19, 20, 28, 29, 4096, 4097, 65535}[r.IntN(10)]
		return append(wire.RawHeader(nil, uint16(l), uint8(1+r.IntN(4))), rb(r.IntN(40))...)
	}
}

func c05World(t *testing.T, p c05Params) rt.Result {
	out := hz.Run(t, hz.Opts{Seed: p.Seed, HookMode: p.Hook, Limit: 3 * time.Hour}, func(w *hz.World) {
		r := rand.New(rand.NewPCG(p.Seed, 5))
		// a bystander peer with an Established session that must not be affected
		by := hz.StdPeer("10.0.2.2")
		by.Passive = true
		bs := bring(w, by, "in", stEstablished, 0) // hold 0: stays up for any virtual duration
		if bs == nil {
			return
		}
		ps := hz.StdPeer("10.0.1.1")
		ps.Hold = []int{90, 0, 3}[r.IntN(3)]
		ps.Passive = p.Dir == "in"
		// half of the plugins answer from inside their callbacks, as a route reflector would
		echo := r.IntN(2) == 0
		ps.Cfg.OnEst = func(s *hz.Session) {
			if echo {
				s.Writer.WriteUpdate([]byte{0, 0, 0, 0})
			}
		}
		ps.Cfg.OnUpdate = func(s *hz.Session, _ int, body []byte) *corebgp.Notification {
			// the plugin runs the exported decoder on whatever arrives, as a real one would
			decodeLikeAPlugin(body)
			if echo {
				s.Writer.WriteUpdate(body[:min(len(body), 64)])
			}
			return nil
		}
		var s *sess
		if p.Reuse && p.Dir == "out" {
			s = bringReused(w, ps, p.State, []uint16{90, 0, 3}[r.IntN(3)])
		} else {
			s = bring(w, ps, p.Dir, p.State, []uint16{90, 0, 3}[r.IntN(3)])
		}
		if s == nil {
			return
		}
		h := hostileBytes(r, p.Kind, s.rc, ps.RemoteAS)
		s.rc.W.Log.Add("tx", ps.Addr.String(), s.rc.ID, fmt.Sprintf("HOSTILE %s %x", p.Kind, head(h)), fmt.Sprintf("%d bytes", len(h)))
		s.rc.SendCuts(h, cuts(r, len(h)), time.Nanosecond)
		if p.Kind == "half-close" || r.IntN(3) == 0 {
			time.Sleep(time.Duration(r.IntN(2000)))
			if r.IntN(2) == 0 {
				s.rc.Close()
			} else {
				s.rc.Reset()
			}
		}
		// let every timer that the input may have armed run out
		time.Sleep(6 * time.Minute)
		w.Settle()
		// probe 1: the bystander session is alive and delivers
		if !bs.mon.Up() {
			w.Violate("hostile input on peer %s took down the Established session of another peer", ps.Addr)
		} else {
			n := len(bs.mon.Cur().Updates)
			bs.rc.SendUpdate(updBody(bs.rc.ID, n))
			w.Settle()
			if cur := bs.mon.Cur(); cur == nil || len(cur.Updates) != n+1 {
				w.Violate("after hostile input on peer %s the other peer's session no longer delivers UPDATEs", ps.Addr)
			}
		}
		// probe 2: a fresh peer can be added and establishes
		fp := hz.StdPeer("10.0.9.9")
		fp.Passive = true
		fm, err := w.AddPeer(fp)
		if err != nil {
			w.Violate("AddPeer of a fresh peer after hostile input: %v", err)
			return
		}
		frc := w.Connect(fp.Addr)
		if !frc.Handshake(fp.RemoteAS, 90, remoteIDu) {
			w.Violate("after hostile input a fresh peer is not served: %s", typesOf(frc.Msgs()))
			return
		}
		w.Settle()
		if !fm.Up() {
			w.Violate("after hostile input a fresh peer does not establish")
		}
		// probe 3 (in finish): Close returns, nothing leaks
	})
	return worldResult(out, true, fmt.Sprintf("|%s %s %s", p.Dir, p.State, p.Kind), map[string]int{"streams": 1})
}

// decodeLikeAPlugin mirrors the UpdateDecoder usage of the project's example.
var pluginDecoder = corebgp.NewUpdateDecoder[*int](
	corebgp.NewWithdrawnRoutesDecodeFn[*int](func(*int, []netip.Prefix) error { return nil }),
	func(_ *int, code uint8, flags corebgp.PathAttrFlags, b []byte) error {
		switch code {
		case corebgp.PATH_ATTR_ORIGIN:
			var o corebgp.OriginPathAttr
			return o.Decode(flags, b)
		case corebgp.PATH_ATTR_AS_PATH:
			var a corebgp.ASPathAttr
			return a.Decode(flags, b)
		case corebgp.PATH_ATTR_NEXT_HOP:
			var n corebgp.NextHopPathAttr
			return n.Decode(flags, b)
		case corebgp.PATH_ATTR_COMMUNITY:
			var c corebgp.CommunitiesPathAttr
			return c.Decode(flags, b)
		case corebgp.PATH_ATTR_MP_REACH_NLRI:
			return corebgp.NewMPReachNLRIDecodeFn[*int](func(_ *int, afi uint16, safi uint8, nh, nlri []byte) error {
				if _, err := corebgp.DecodeMPReachIPv6NextHops(nh); err != nil {
					return err
				}
				_, err := corebgp.DecodeMPIPv6Prefixes(nlri)
				return err
			})(nil, flags, b)
		}
		return nil
	},
	corebgp.NewNLRIDecodeFn[*int](func(*int, []netip.Prefix) error { return nil }),
)

func decodeLikeAPlugin(body []byte) {
	err := pluginDecoder.Decode(nil, body)
	corebgp.UpdateNotificationFromErr(err)
}

// ---------------------------------------------------------------- API programs

func c05API(t *testing.T, seed uint64) rt.Result {
	ops := 0
	out := hz.Run(t, hz.Opts{Seed: seed, HookMode: hz.HookYield, NoServe: true, Limit: time.Hour, ExtraListeners: int(mix(seed) % 3)}, func(w *hz.World) {
		r := rand.New(rand.NewPCG(seed, 6))
		srv := w.Srv
		var wg sync.WaitGroup
		var mu sync.Mutex
		var writers []corebgp.UpdateMessageWriter
		served := false
		serveRet := make(chan error, 512)
		addrs := []string{"10.0.1.1", "10.0.1.2", "2001:db8::1", "10.0.1.4"}
		plugin := &hz.QuietPlugin{OnEst: func(wr corebgp.UpdateMessageWriter) {
			mu.Lock()
			writers = append(writers, wr)
			mu.Unlock()
		}}
		w.DialPolicy = func(hz.DialReq) (hz.DialAction, time.Duration) { return hz.DialRefuse, 0 }
		doOp := func(rr *rand.Rand) {
			a := netip.MustParseAddr(addrs[rr.IntN(len(addrs))])
			switch rr.IntN(12) {
			case 0, 1:
				srv.AddPeer(corebgp.PeerConfig{RemoteAddress: a, LocalAS: 65001, RemoteAS: 65002}, plugin, corebgp.WithIdleHoldTime(time.Millisecond), corebgp.WithPassive())
			case 2:
				srv.AddPeer(corebgp.PeerConfig{RemoteAddress: a, LocalAS: 65001, RemoteAS: 65002}, plugin)
			case 3: // invalid configurations
				switch rr.IntN(4) {
				case 0:
					srv.AddPeer(corebgp.PeerConfig{}, plugin)
				case 1:
					srv.AddPeer(corebgp.PeerConfig{RemoteAddress: a, LocalAS: 1, RemoteAS: 2}, plugin, corebgp.WithHoldTime(1))
				case 2:
					srv.AddPeer(corebgp.PeerConfig{RemoteAddress: a, LocalAS: 1, RemoteAS: 2}, plugin, corebgp.WithPort(0))
				case 3:
					srv.AddPeer(corebgp.PeerConfig{RemoteAddress: a, LocalAS: 1, RemoteAS: 2}, plugin, corebgp.WithLocalAddress(netip.MustParseAddr("::1")))
				}
			case 4, 5:
				srv.DeletePeer(a)
			case 6:
				srv.GetPeer(a)
			case 7:
				srv.ListPeers()
			case 8: // an inbound connection from a configured or unconfigured address
				if w.Lis != nil {
					rc := w.Connect(a)
					nap := time.Duration(rr.IntN(3000)) * time.Microsecond
					wg.Add(1)
					go func() {
						defer wg.Done()
						if rc.Handshake(65002, 90, remoteIDu) {
							time.Sleep(nap)
						}
						rc.Close()
					}()
				}
			case 9: // a stale or live writer
				mu.Lock()
				var wr corebgp.UpdateMessageWriter
				if len(writers) > 0 {
					wr = writers[rr.IntN(len(writers))]
				}
				mu.Unlock()
				if wr != nil {
					wr.WriteUpdate([]byte{0, 0, 0, 0})
				}
			case 10:
				mu.Lock()
				s := served
				served = true
				mu.Unlock()
				// Serve is also called while the server is serving and after a Serve that a
				// listener error ended: it must return an error, not start the peers again
				if !s || rr.IntN(3) == 0 {
					var ls []net.Listener
					switch rr.IntN(3) {
					case 0:
						ls = nil
					default:
						ls = []net.Listener{w.Lis}
						for _, l := range w.Extra {
							ls = append(ls, l)
						}
					}
					wg.Add(1)
					go func() {
						defer wg.Done()
						serveRet <- srv.Serve(ls)
					}()
				} else if rr.IntN(4) == 0 && w.Lis != nil {
					w.Lis.Fail(errors.New("injected accept error")) // listener failure ends Serve
					for _, l := range w.Extra {                     // (all listeners at the same instant)
						l.Fail(errors.New("injected accept error"))
					}
				}
			case 11:
				if rr.IntN(6) == 0 {
					srv.Close()
					if rr.IntN(2) == 0 {
						srv.Close() // Close twice
					}
					if err := srv.Serve(nil); err != corebgp.ErrServerClosed { // Serve after Close
						w.Violate("Serve after Close returned %v, want ErrServerClosed", err)
					}
				}
			}
			mu.Lock()
			ops++
			mu.Unlock()
		}
		actors := 1 + r.IntN(3)
		for k := 0; k < actors; k++ {
			wg.Add(1)
			go func(k int) {
				defer wg.Done()
				rr := rand.New(rand.NewPCG(seed, uint64(60+k)))
				for i := 0; i < 25+rr.IntN(40); i++ {
					doOp(rr)
					time.Sleep(time.Duration(rr.IntN(800)) * time.Microsecond)
				}
			}(k)
		}
		time.Sleep(100 * time.Millisecond)
		srv.Close()
		wg.Wait()
		// every Serve call has returned
		for len(serveRet) > 0 {
			<-serveRet
		}
		w.Lis.Close() // connections never accepted because Serve was not running
		for _, l := range w.Extra {
			l.Close()
		}

	})
	// finish() would call w.Close again and check Serve bookkeeping that this
	// scenario bypasses; leaks and deadlocks are still detected there.
	return worldResult(out, ops > 0, fmt.Sprintf("|%d", ops/10), map[string]int{"api_programs": 1, "api_ops": ops})
}

func TestC05(t *testing.T) {
	c := rt.Get()
	n := c.N(5000, 200000)
	for i := 0; i < n; i++ {
		if !c.Mine("streams", i) {
			continue
		}
		r := c.Rand("c05", i)
		p := c05Params{Dir: allDirs[r.IntN(2)], State: allStates[r.IntN(3)], Kind: c05Kinds[i%len(c05Kinds)], Seed: uint64(i)*2862933555777941757 + c.Seed, Hook: hookMode(r)}
		p.Reuse = p.Dir == "out" && r.IntN(3) == 0
		runCase(t, "streams", i, p, func(t *testing.T) rt.Result { return c05World(t, p) })
	}
	m := c.N(1500, 40000)
	for i := 0; i < m; i++ {
		seed := uint64(i)*3202034522624059733 + c.Seed
		runCase(t, "api", i, map[string]any{"seed": seed}, func(t *testing.T) rt.Result { return c05API(t, seed) })
	}
}
