package fsm

import (
	"fmt"
	"math/rand/v2"
	"sync"
	"syscall"
	"testing"
	"time"

	"verif/internal/hz"
	"verif/internal/rt"
)

// C11: reconnection liveness (restated as bounded progress in virtual time)
// and retry pacing after non-damping faults.

type c11Params struct {
	Faults    []string // refuse | stall | close@S | reset@S | cease@S
	IdleHold  int64    // ms
	ConnRetry int64    // ms
	Passive   bool
	Seed      uint64
	Hook      int
}

const c11Tol = 5 * time.Millisecond

func faultState(f string) string {
	for _, s := range allStates {
		if len(f) > len(s) && f[len(f)-len(s):] == s {
			return s
		}
	}
	return ""
}

// applyFault brings rc to the fault's state and then performs the fault; it
// returns the virtual time at which the fault was complete.
func applyFault(w *hz.World, rc *hz.RConn, f string, dwell time.Duration) (time.Duration, bool) {
	if f == "collide" {
		// while corebgp's own connection sits in OpenSent the remote completes an inbound
		// handshake and closes the outbound connection at the instant it sends the
		// KEEPALIVE that establishes the inbound one; later it drops that session too
		if !rc.WaitMsgs(1, 10*time.Second) {
			return 0, false
		}
		in := w.Connect(rc.PeerIP)
		if !in.WaitMsgs(1, 10*time.Second) {
			return 0, false
		}
		in.SendOpen(in.StdOpen(remoteAS, 90, remoteIDu))
		if !in.WaitMsgs(2, 10*time.Second) {
			return 0, false
		}
		in.SendKeepalive()
		rc.Close()
		time.Sleep(dwell + time.Millisecond)
		in.Close()
		return w.Now(), true
	}
	if f == "collide-oc" {
		// a full collision: both connections reach OpenConfirm, the remote (higher
		// identifier) is dominant so its own connection, corebgp's inbound one, is kept and
		// corebgp's outbound connection is ceased; the remote then drops the surviving
		// connection before it is Established
		if !rc.WaitMsgs(1, 10*time.Second) {
			return 0, false
		}
		in := w.Connect(rc.PeerIP)
		if !in.WaitMsgs(1, 10*time.Second) {
			return 0, false
		}
		rc.SendOpen(rc.StdOpen(remoteAS, 90, remoteIDu))
		if !rc.WaitMsgs(2, 10*time.Second) {
			return 0, false
		}
		in.SendOpen(in.StdOpen(remoteAS, 90, remoteIDu))
		if !in.WaitMsgs(2, 10*time.Second) || !rc.WaitEOF(10*time.Second) {
			return 0, false
		}
		time.Sleep(dwell)
		switch dwell % 3 {
		case 0:
			in.Close()
		case 1:
			in.Reset()
		default:
			in.SendNotification(6, 7, nil)
		}
		return w.Now(), true
	}
	st := faultState(f)
	if !rc.WaitMsgs(1, 10*time.Second) {
		return 0, false
	}
	if st != stOpenSent {
		rc.SendOpen(rc.StdOpen(remoteAS, 90, remoteIDu))
		if !rc.WaitMsgs(2, 10*time.Second) {
			return 0, false
		}
	}
	if st == stEstablished {
		rc.SendKeepalive()
		time.Sleep(time.Millisecond)
	}
	time.Sleep(dwell)
	switch f[:5] {
	case "close":
		rc.Close()
	case "reset":
		rc.Reset()
	case "cease":
		rc.SendNotification(6, 0, nil)
	}
	return w.Now(), true
}

func c11World(t *testing.T, p c11Params) rt.Result {
	idle, cr := time.Duration(p.IdleHold)*time.Millisecond, time.Duration(p.ConnRetry)*time.Millisecond
	established := false
	out := hz.Run(t, hz.Opts{Seed: p.Seed, HookMode: p.Hook, Limit: 12 * time.Hour}, func(w *hz.World) {
		r := rand.New(rand.NewPCG(p.Seed, 11))
		ps := hz.StdPeer("10.0.1.1")
		ps.Hold = 90
		ps.IdleHold, ps.ConnectRetry = idle, cr
		ps.Passive = p.Passive
		desc := fmt.Sprintf("[faults %v idle-hold %v connect-retry %v passive=%v]", p.Faults, idle, cr, p.Passive)

		if p.Passive {
			mon := w.MustAddPeer(ps)
			for i, f := range p.Faults {
				if f == "refuse" || f == "stall" || f == "collide" || f == "collide-oc" {
					time.Sleep(idle) // nothing to do for a passive peer
					continue
				}
				rc := w.Connect(ps.Addr)
				if _, ok := applyFault(w, rc, f, time.Duration(r.Int64N(int64(2*idle)))); !ok {
					w.Violate("%s inbound connection %d to a passive peer was not served: %s", desc, i, typesOf(rc.Msgs()))
					return
				}
				w.Settle()
			}
			rc := w.Connect(ps.Addr)
			if !rc.Handshake(ps.RemoteAS, 90, remoteIDu) {
				w.Violate("%s passive peer did not complete a handshake after the faults: %s", desc, typesOf(rc.Msgs()))
				return
			}
			w.Settle()
			if !mon.Up() {
				w.Violate("%s passive peer did not establish after the faults", desc)
			}
			established = mon.Up()
			time.Sleep(2*idle + 2*cr)
			if n := len(w.Dials()); n != 0 {
				w.Violate("%s a passive peer made %d outbound attempt(s)", desc, n)
			}
			return
		}

		var mu sync.Mutex
		k := 0
		faultOf := map[int]string{}       // dial index -> fault applied
		doneAt := map[int]time.Duration{} // dial index -> completion time of the fault
		var pending []int
		okDialed := false
		w.DialPolicy = func(req hz.DialReq) (hz.DialAction, time.Duration) {
			mu.Lock()
			defer mu.Unlock()
			f := "ok"
			if k < len(p.Faults) {
				f = p.Faults[k]
				k++
			}
			faultOf[req.N] = f
			if f == "ok" {
				okDialed = true
			}
			switch f {
			case "refuse":
				return hz.DialRefuse, 0
			case "stall":
				return hz.DialStall, 0
			}
			pending = append(pending, req.N)
			return hz.DialAccept, 0
		}
		estAt := time.Duration(-1)
		var estMu sync.Mutex
		failed := ""
		w.OnOut = func(rc *hz.RConn) {
			mu.Lock()
			n := pending[0]
			pending = pending[1:]
			f := faultOf[n]
			dw := time.Duration(r.Int64N(int64(2*idle) + 1))
			mu.Unlock()
			if f == "ok" {
				if !rc.Handshake(ps.RemoteAS, 90, remoteIDu) {
					estMu.Lock()
					failed = "handshake on the well-behaved attempt failed: " + typesOf(rc.Msgs())
					estMu.Unlock()
				}
				return
			}
			at, ok := applyFault(w, rc, f, dw)
			mu.Lock()
			if ok {
				doneAt[n] = at
			} else {
				doneAt[n] = -1
			}
			mu.Unlock()
		}
		ps.Cfg.OnEst = func(*hz.Session) {
			mu.Lock()
			okPhase := okDialed
			mu.Unlock()
			if !okPhase {
				return // a session established as part of a fault (…@Established)
			}
			estMu.Lock()
			if estAt < 0 {
				estAt = w.Now()
			}
			estMu.Unlock()
		}
		mon := w.MustAddPeer(ps)
		// run until established or far beyond any legal bound
		limit := time.Duration(len(p.Faults)+2) * (3*idle + 2*cr + 5*time.Second)
		for w.Now() < limit {
			time.Sleep(50 * time.Millisecond)
			estMu.Lock()
			e := estAt
			estMu.Unlock()
			if e >= 0 {
				break
			}
		}
		w.Settle()
		ds := w.Dials()
		mu.Lock()
		defer mu.Unlock()
		estMu.Lock()
		defer estMu.Unlock()
		if failed != "" {
			w.Violate("%s %s", desc, failed)
		}
		lastFault := time.Duration(0)
		for i, d := range ds {
			f := faultOf[d.N]
			var next *hz.DialRec
			if i+1 < len(ds) {
				next = &ds[i+1]
			}
			switch f {
			case "refuse":
				lastFault = d.At
				if next == nil {
					w.Violate("%s no further attempt after the refused attempt %d at +%v (stuck); now +%v", desc, i, d.At, w.Now())
					return
				}
				gap := next.At - d.At
				// the pacing clause speaks of runs of refused attempts: it is applied
				// when the previous attempt (if any) was refused as well
				if (i == 0 || faultOf[ds[i-1].N] == "refuse") && gap < idle-c11Tol {
					w.Violate("%s attempt %d at +%v follows the refused attempt at +%v after only %v; idle-hold time is %v (busy redial)", desc, i+1, next.At, d.At, gap, idle)
				}
				if gap > idle+cr+c11Tol {
					w.Violate("%s attempt %d follows the refused attempt %d after %v; expected about the idle-hold time %v", desc, i+1, i, gap, idle)
				}
			case "stall":
				if !d.Cancelled {
					w.Violate("%s stalled attempt %d at +%v was never abandoned (its context not cancelled)", desc, i, d.At)
					return
				}
				lastFault = d.DoneAt
				if d.DoneAt-d.At > cr+c11Tol {
					w.Violate("%s stalled attempt %d abandoned after %v; connect-retry time is %v", desc, i, d.DoneAt-d.At, cr)
				}
				if next == nil || next.At-d.At > cr+c11Tol {
					w.Violate("%s stalled attempt %d at +%v was not replaced by a new attempt within the connect-retry time %v", desc, i, d.At, cr)
					return
				}
			case "ok":
			default:
				fa, ok := doneAt[d.N]
				if !ok || fa < 0 {
					w.Violate("%s attempt %d: corebgp did not follow the handshake up to %s", desc, i, faultState(f))
					return
				}
				lastFault = fa
				if next == nil || next.At-fa > idle+cr+c11Tol {
					w.Violate("%s after %s completed at +%v no new attempt within idle-hold + connect-retry = %v", desc, f, fa, idle+cr)
					return
				}
			}
		}
		if estAt < 0 {
			w.Violate("%s session not Established by +%v although the remote behaved well after the last fault at +%v", desc, w.Now(), lastFault)
			return
		}
		established = true
		if estAt-lastFault > idle+cr+time.Second {
			w.Violate("%s Established at +%v, %v after the last fault (+%v); bound is idle-hold + connect-retry + 1 s = %v", desc, estAt, estAt-lastFault, lastFault, idle+cr+time.Second)
		}
		_ = mon
	})
	return worldResult(out, established, fmt.Sprintf("|%v %d %d %v", p.Faults, p.IdleHold, p.ConnRetry, p.Passive), map[string]int{"fault_strings": 1, "faults": len(p.Faults)})
}

// c11InboundEnd: after an inbound Established session of an active peer ends,
// dialling resumes at once and a new inbound connection is accepted.
func c11InboundEnd(t *testing.T, how, next string, seed uint64, hook int) rt.Result {
	out := hz.Run(t, hz.Opts{Seed: seed, HookMode: hook}, func(w *hz.World) {
		ps := hz.StdPeer("10.0.1.1")
		ps.IdleHold, ps.ConnectRetry = 5*time.Second, 5*time.Second
		s := bring(w, ps, "in", stEstablished, 90)
		if s == nil {
			return
		}
		acceptOut := false
		w.DialPolicy = func(hz.DialReq) (hz.DialAction, time.Duration) {
			if acceptOut {
				return hz.DialAccept, 0
			}
			return hz.DialRefuse, 0
		}
		time.Sleep(12 * time.Second) // remote keeps it alive below the 90 s hold time
		n0 := len(w.Dials())
		if n0 != 1 {
			w.Violate("expected exactly the initial refused attempt before the inbound session established, saw %d attempts (outbound FSM must be off while inbound is Established)", n0)
		}
		acceptOut = next == "outbound"
		switch how {
		case "close":
			s.rc.Close()
		case "reset":
			s.rc.Reset()
		case "cease":
			s.rc.SendNotification(6, 0, nil)
		}
		T := w.Now()
		w.Settle()
		ds := w.Dials()
		if len(ds) <= n0 {
			w.Violate("inbound session ended (%s) at +%v but dialling did not resume at once", how, T)
			return
		}
		if at := ds[n0].At; at-T > c11Tol {
			w.Violate("inbound session ended at +%v, next outbound attempt only at +%v", T, at)
		}
		if next == "outbound" {
			// the remote now accepts corebgp's own connection and behaves well: the session must establish
			oc := w.WaitOut(1, time.Second)
			if oc == nil {
				w.Violate("no outbound connection after the inbound session ended")
				return
			}
			if !oc.Handshake(ps.RemoteAS, 90, remoteIDu) {
				w.Violate("outbound handshake after an inbound session ended (%s) failed: %s", how, typesOf(oc.Msgs()))
				return
			}
			w.Settle()
			if eof, _ := oc.EOF(); eof || !s.mon.Up() {
				w.Violate("after an inbound session ended (%s) the next outbound session did not establish with a well-behaved remote: %s", how, typesOf(oc.Msgs()))
			}
			return
		}
		rc := w.Connect(ps.Addr)
		if !rc.Handshake(ps.RemoteAS, 90, remoteIDu) {
			w.Violate("a new inbound connection after the session ended was not served: %s", typesOf(rc.Msgs()))
			return
		}
		w.Settle()
		if !s.mon.Up() {
			w.Violate("new inbound session did not establish")
		}
	})
	return worldResult(out, true, "|"+how+next, map[string]int{"inbound_end": 1})
}

// c11RetryRace: the first dial completes at the very instant the connect-retry
// timer fires (whichever corebgp notices first, it ends up with a connection or
// with a new attempt); the session that follows is ended by the remote with a
// Cease, and the peer must dial again within idle-hold + connect-retry.
func c11RetryRace(t *testing.T, seed uint64, hook int) rt.Result {
	viaFirst := 0
	out := hz.Run(t, hz.Opts{Seed: seed, HookMode: hook}, func(w *hz.World) {
		idle, cr := time.Second, 2*time.Second
		ps := hz.StdPeer("10.0.1.1")
		ps.Hold = 90
		ps.IdleHold, ps.ConnectRetry = idle, cr
		var mu sync.Mutex
		n := 0
		w.DialPolicy = func(hz.DialReq) (hz.DialAction, time.Duration) {
			mu.Lock()
			defer mu.Unlock()
			n++
			if n == 1 {
				return hz.DialAccept, cr
			}
			return hz.DialAccept, 0
		}
		mon := w.MustAddPeer(ps)
		rc := w.WaitOut(1, 10*time.Second)
		if rc == nil {
			w.Violate("no outbound connection within 10 s although every dial is accepted (first one after exactly the connect-retry time)")
			return
		}
		if ds := w.Dials(); len(ds) > 0 && ds[0].Conn == rc {
			viaFirst = 1
		}
		if !rc.Handshake(ps.RemoteAS, 90, remoteIDu) {
			w.Violate("handshake on the connection that came up at the connect-retry instant failed: [%s]", typesOf(rc.Msgs()))
			return
		}
		w.Settle()
		if !mon.Up() {
			w.Violate("session did not establish on the connection that came up at the connect-retry instant")
			return
		}
		time.Sleep(3 * time.Second)
		before := len(w.OutConns())
		rc.SendNotification(6, 4, nil)
		T := w.Now()
		rc2 := w.WaitOut(before+1, idle+cr+time.Second)
		if rc2 == nil {
			w.Violate("no new outbound connection within idle-hold + connect-retry + 1 s = %v after the remote ended the session with a Cease at +%v (the session's connection had come up at the instant the connect-retry timer fired; first dial used: %v); dial attempts so far: %d", idle+cr+time.Second, T, viaFirst == 1, len(w.Dials()))
			return
		}
		if !rc2.Handshake(ps.RemoteAS, 90, remoteIDu) {
			w.Violate("handshake on the next connection failed: [%s]", typesOf(rc2.Msgs()))
		}
	})
	return worldResult(out, true, fmt.Sprintf("|retryrace %d", viaFirst), map[string]int{"retry_race_worlds": 1, "session_on_the_racing_dial": viaFirst})
}

func TestC11(t *testing.T) {
	c := rt.Get()
	for i := 0; i < c.N(240, 8000); i++ {
		seed := uint64(i)*0x9e3779b97f4a7c15 + c.Seed
		hook := []int{hz.HookOff, hz.HookVSleep, hz.HookYield}[i%3]
		runCase(t, "retry-race", i, map[string]any{"idle_hold": "1s", "connect_retry": "2s"}, func(t *testing.T) rt.Result { return c11RetryRace(t, seed, hook) })
	}
	var alpha []string
	alpha = append(alpha, "refuse", "stall", "collide", "collide-oc")
	for _, k := range []string{"close", "reset", "cease"} {
		for _, s := range allStates {
			alpha = append(alpha, k+"@"+s)
		}
	}
	timers := [][2]int64{{5000, 5000}, {1000, 30000}, {30000, 1000}, {100, 100}}
	maxLen := c.N(3, 5)
	// all fault strings up to maxLen
	var strs [][]string
	var rec func(prefix []string)
	rec = func(prefix []string) {
		strs = append(strs, append([]string(nil), prefix...))
		if len(prefix) == maxLen {
			return
		}
		for _, a := range alpha {
			rec(append(prefix, a))
		}
	}
	rec(nil)
	c.Info("strings", map[string]any{"alphabet": alpha, "max_len": maxLen, "count": len(strs), "exhaustive": true})
	for i, fs := range strs {
		if !c.Mine("strings", i) {
			continue
		}
		r := c.Rand("c11", i)
		tm := timers[r.IntN(len(timers))]
		p := c11Params{Faults: fs, IdleHold: tm[0], ConnRetry: tm[1], Passive: r.IntN(6) == 0, Seed: uint64(i)*48271 + c.Seed, Hook: hookMode(r)}
		runCase(t, "strings", i, p, func(t *testing.T) rt.Result { return c11World(t, p) })
	}
	// longer random strings (thorough: up to 5 and 6)
	n := c.N(3000, 300000)
	for i := 0; i < n; i++ {
		if !c.Mine("long", i) {
			continue
		}
		r := c.Rand("c11long", i)
		var fs []string
		for k := 4 + r.IntN(3); k > 0; k-- {
			fs = append(fs, alpha[r.IntN(len(alpha))])
		}
		tm := timers[r.IntN(len(timers))]
		p := c11Params{Faults: fs, IdleHold: tm[0], ConnRetry: tm[1], Passive: r.IntN(8) == 0, Seed: uint64(i)*16807 + c.Seed, Hook: hookMode(r)}
		runCase(t, "long", i, p, func(t *testing.T) rt.Result { return c11World(t, p) })
	}
	for i := 0; i < c.N(60, 1500); i++ {
		how := []string{"close", "reset", "cease"}[i%3]
		next := []string{"inbound", "outbound"}[(i/3)%2]
		seed := uint64(i)*31 + c.Seed
		runCase(t, "inbound-end", i, map[string]any{"how": how, "next_session": next}, func(t *testing.T) rt.Result { return c11InboundEnd(t, how, next, seed, hz.HookVSleep) })
	}
	// real refused loopback dials inside the bubble: the real net.Dialer and the
	// WithDialerControl callback (one per attempt) are observed
	for i := 0; i < c.N(8, 64); i++ {
		idle := []time.Duration{time.Second, 5 * time.Second, 100 * time.Millisecond, 30 * time.Second}[i%4]
		runCase(t, "realdial", i, map[string]any{"idle_hold": idle.String(), "target": "127.0.0.1:1 (closed port)"}, func(t *testing.T) rt.Result {
			var mu sync.Mutex
			var at []time.Duration
			out := hz.Run(t, hz.Opts{Seed: uint64(i), HookMode: hz.HookOff}, func(w *hz.World) {
				ps := hz.StdPeer("127.0.0.1")
				ps.Port = 1
				ps.IdleHold = idle
				ps.DialControl = func(network, address string, _ syscall.RawConn) error {
					mu.Lock()
					at = append(at, w.Now())
					mu.Unlock()
					return nil
				}
				w.DialPolicy = func(hz.DialReq) (hz.DialAction, time.Duration) { return hz.DialReal, 0 }
				w.MustAddPeer(ps)
				time.Sleep(10*idle + idle/2)
				mu.Lock()
				defer mu.Unlock()
				if len(at) < 10 || len(at) > 12 {
					w.Violate("%d real dial attempts in 10.5 idle-hold periods of %v, expected 11", len(at), idle)
				}
				for k := 1; k < len(at); k++ {
					if g := at[k] - at[k-1]; g < idle-c11Tol || g > idle+c11Tol {
						w.Violate("real refused dials %d and %d are %v apart, idle-hold time is %v", k-1, k, g, idle)
					}
				}
			})
			return worldResult(out, len(at) > 2, fmt.Sprintf("|real %v %d", idle, len(at)), map[string]int{"real_dials": len(at)})
		})
	}
}
