package fsm

import (
	"fmt"
	"math/rand/v2"
	"net/netip"
	"sync"
	"sync/atomic"
	"testing"
	"time"

	"github.com/jwhited/corebgp"

	"verif/internal/hz"
	"verif/internal/rt"
)

// Race pass of C10: hostile worlds executed under the Go race detector with
// quiet monitors (no event log, no locking plugin), steps paced by virtual
// sleeps instead of synctest.Wait barriers. The verdict comes from the race
// reports the driver collects from GORACE log files; the worlds themselves
// only check that shutdown completes.

func quietPlugin(stop *atomic.Bool, wg *sync.WaitGroup, writers int) corebgp.Plugin {
	return &hz.QuietPlugin{OnEst: func(wr corebgp.UpdateMessageWriter) {
		for k := 0; k < writers; k++ {
			wg.Add(1)
			go func(k int) {
				defer wg.Done()
				r := rand.New(rand.NewPCG(uint64(k), 77))
				for i := 0; i < 3000 && !stop.Load(); i++ {
					wr.WriteUpdate(make([]byte, 4+r.IntN(32))) // stale writers keep calling on purpose
					time.Sleep(time.Duration(r.IntN(400)) * time.Microsecond)
				}
			}(k)
		}
	}}
}

func raceSessions(t *testing.T, seed uint64, hook int) rt.Result {
	sessions := 0
	out := hz.Run(t, hz.Opts{Seed: seed, HookMode: hook, Quiet: true, Limit: time.Hour}, func(w *hz.World) {
		r := rand.New(rand.NewPCG(seed, 1))
		var stop atomic.Bool
		var wg sync.WaitGroup
		ps := hz.StdPeer("10.0.1.1")
		ps.Hold = []int{3, 0, 90}[r.IntN(3)]
		ps.IdleHold = 5 * time.Millisecond
		ps.ConnectRetry = 20 * time.Millisecond
		ps.Plugin = quietPlugin(&stop, &wg, 1+r.IntN(3))
		if r.IntN(4) == 0 {
			// remote dominant in some worlds
			w.O.LocalID = netip.MustParseAddr("10.0.0.1")
		}
		var mu sync.Mutex
		nsess := 0
		pr := rand.New(rand.NewPCG(seed, 3)) // used by the dial goroutines only, under mu
		w.DialPolicy = func(hz.DialReq) (hz.DialAction, time.Duration) {
			mu.Lock()
			defer mu.Unlock()
			switch pr.IntN(6) {
			case 0:
				return hz.DialRefuse, 0
			case 1:
				return hz.DialAccept, time.Duration(pr.IntN(3000))
			}
			return hz.DialAccept, 0
		}
		serve := func(rc *hz.RConn, rr *rand.Rand) {
			if !rc.Handshake(ps.RemoteAS, uint16([]int{3, 0, 90}[rr.IntN(3)]), remoteIDu+uint32(rr.IntN(2))*0x1000000) {
				rc.Close()
				return
			}
			mu.Lock()
			nsess++
			mu.Unlock()
			for i := rr.IntN(6); i > 0; i-- {
				time.Sleep(time.Duration(rr.IntN(800)) * time.Microsecond)
				if rr.IntN(2) == 0 {
					rc.SendKeepalive()
				} else {
					rc.SendUpdate([]byte{0, 0, 0, 0})
				}
			}
			switch rr.IntN(4) {
			case 0:
				rc.Close()
			case 1:
				rc.Reset()
			case 2:
				rc.SendNotification(6, 0, nil)
			case 3:
				rc.SendNotification(6, 2, nil)
			}
		}
		var swg sync.WaitGroup
		var cnt atomic.Int64
		w.OnOut = func(rc *hz.RConn) {
			swg.Add(1)
			defer swg.Done()
			serve(rc, rand.New(rand.NewPCG(seed, uint64(cnt.Add(1)))))
		}
		w.MustAddPeer(ps)
		// inbound connections arrive while the outbound side cycles
		end := time.Duration(30+r.IntN(60)) * time.Millisecond
		for w.Now() < end {
			time.Sleep(time.Duration(r.IntN(6000)) * time.Microsecond)
			if r.IntN(3) == 0 {
				rc := w.Connect(ps.Addr)
				swg.Add(1)
				go func() {
					defer swg.Done()
					serve(rc, rand.New(rand.NewPCG(seed, uint64(cnt.Add(1)))))
				}()
			}
		}
		w.Close()
		stop.Store(true)
		wg.Wait()
		swg.Wait()
		mu.Lock()
		sessions = nsess
		mu.Unlock()
	})
	return worldResult(out, sessions > 0, fmt.Sprintf("|s%d", min(sessions, 12)), map[string]int{"race_worlds": 1, "sessions": sessions})
}

func raceAPI(t *testing.T, seed uint64) rt.Result {
	ops := 0
	out := hz.Run(t, hz.Opts{Seed: seed, HookMode: hz.HookYield, Quiet: true, Limit: time.Hour}, func(w *hz.World) {
		r := rand.New(rand.NewPCG(seed, 2))
		var stop atomic.Bool
		var wg, awg sync.WaitGroup
		addrs := []netip.Addr{netip.MustParseAddr("10.0.1.1"), netip.MustParseAddr("10.0.1.2"), netip.MustParseAddr("10.0.1.3")}
		w.DialPolicy = func(hz.DialReq) (hz.DialAction, time.Duration) { return hz.DialRefuse, 0 }
		mk := func(a netip.Addr) hz.PeerSpec {
			ps := hz.StdPeer(a.String())
			ps.IdleHold = 2 * time.Millisecond
			ps.Plugin = quietPlugin(&stop, &wg, 1)
			return ps
		}
		var nops atomic.Int64
		for k := 0; k < 3; k++ {
			awg.Add(1)
			go func(k int) {
				defer awg.Done()
				rr := rand.New(rand.NewPCG(seed, uint64(100+k)))
				for i := 0; i < 30 && !stop.Load(); i++ {
					a := addrs[rr.IntN(len(addrs))]
					switch rr.IntN(5) {
					case 0, 1:
						ps := mk(a)
						w.Srv.AddPeer(corebgp.PeerConfig{RemoteAddress: a, LocalAS: ps.LocalAS, RemoteAS: ps.RemoteAS}, ps.Plugin, corebgp.WithIdleHoldTime(ps.IdleHold))
					case 2:
						w.Srv.DeletePeer(a)
					case 3:
						w.Srv.GetPeer(a)
					case 4:
						w.Srv.ListPeers()
					}
					nops.Add(1)
					time.Sleep(time.Duration(rr.IntN(1500)) * time.Microsecond)
				}
			}(k)
		}
		// remote side: inbound connections to whoever is configured
		awg.Add(1)
		go func() {
			defer awg.Done()
			rr := rand.New(rand.NewPCG(seed, 200))
			for i := 0; i < 12 && !stop.Load(); i++ {
				rc := w.Connect(addrs[rr.IntN(len(addrs))])
				if rc.Handshake(remoteAS, 90, remoteIDu) {
					time.Sleep(time.Duration(rr.IntN(2000)) * time.Microsecond)
				}
				if rr.IntN(2) == 0 {
					rc.Close()
				}
				time.Sleep(time.Duration(rr.IntN(2000)) * time.Microsecond)
			}
		}()
		time.Sleep(time.Duration(5+r.IntN(25)) * time.Millisecond)
		w.Srv.Close()
		stop.Store(true)
		awg.Wait()
		wg.Wait()
		ops = int(nops.Load())
	})
	return worldResult(out, ops > 0, fmt.Sprintf("|o%d", ops/8), map[string]int{"race_worlds": 1, "api_ops": ops})
}

func TestC10Race(t *testing.T) {
	c := rt.Get()
	n := c.N(3200, 80000)
	for i := 0; i < n; i++ {
		seed := uint64(i)*11400714819323198485 + c.Seed
		hook := []int{hz.HookVSleep, hz.HookVSleep, hz.HookOff}[i%3]
		runCase(t, "sessions", i, map[string]any{"seed": seed, "hook": hook}, func(t *testing.T) rt.Result { return raceSessions(t, seed, hook) })
	}
	m := c.N(1600, 40000)
	for i := 0; i < m; i++ {
		seed := uint64(i)*14029467366897019727 + c.Seed
		runCase(t, "api", i, map[string]any{"seed": seed}, func(t *testing.T) rt.Result { return raceAPI(t, seed) })
	}
}
