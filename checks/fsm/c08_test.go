package fsm

import (
	"encoding/hex"
	"fmt"
	"net/netip"
	"testing"
	"time"

	"github.com/jwhited/corebgp"

	"verif/internal/hz"
	"verif/internal/memnet"
	"verif/internal/ref"
	"verif/internal/rt"
	"verif/internal/wire"
)

// C08: receive-side header validation and stream framing.

type c08Params struct {
	Dir, State string
	Header     string // hex, 19 bytes
	Prefix     int    // number of well-formed messages sent before the fault (state dependent meaning)
	Seed       uint64
	Hook       int
}

// headerFaults is the reference: the set of NOTIFICATIONs that apply to a
// 19-octet header (RFC 4271 §6.1).
func headerFaults(h []byte) []ref.Reply {
	var out []ref.Reply
	for i := 0; i < 16; i++ {
		if h[i] != 0xff {
			out = append(out, ref.Reply{Code: 1, Sub: 1, Fault: "marker is not sixteen 0xFF octets"})
			break
		}
	}
	l := int(h[16])<<8 | int(h[17])
	if l < 19 || l > 4096 {
		out = append(out, ref.Reply{Code: 1, Sub: 2, Fault: fmt.Sprintf("length %d outside 19..4096", l)})
	}
	if h[18] < 1 || h[18] > 4 {
		out = append(out, ref.Reply{Code: 1, Sub: 3, Data: []byte{h[18]}, Fault: fmt.Sprintf("unknown type %d", h[18])})
	}
	return out
}

func updBody(conn, idx int) []byte {
	// withdrawn len 0, attr len 0, then 8 bytes of (conn, idx) as "NLRI" payload
	b := []byte{0, 0, 0, 0, byte(conn >> 8), byte(conn), byte(idx >> 24), byte(idx >> 16), byte(idx >> 8), byte(idx)}
	return b
}

func c08World(t *testing.T, p c08Params) rt.Result {
	hdr, _ := hex.DecodeString(p.Header)
	faults := headerFaults(hdr)
	r := rt.Get().Rand("c08w", int(p.Seed))
	out := hz.Run(t, hz.Opts{Seed: p.Seed, HookMode: p.Hook, WriteYields: 3, EOFWithData: mix(p.Seed)%3 == 0}, func(w *hz.World) {
		ps := hz.StdPeer("10.0.1.1")
		ps.Passive = p.Dir == "in"
		v := pickVariety(r, p.Dir)
		if r.IntN(3) == 0 {
			v = v.withStorm(1 + r.IntN(3)) // plugin goroutines writing while the fault is answered
		}
		defer v.Kick()
		v.apply(&ps, p.Seed)
		s := bringV(w, ps, p.Dir, p.State, v)
		if s == nil {
			return
		}
		rc := s.rc
		base := len(rc.Msgs())
		sess0 := len(s.mon.Sessions) // a reused fsm has a finished session already
		if p.State == stEstablished {
			sess0--
		}
		// well-formed prefix, the fault, then a message that would have an effect
		var stream []byte
		wantKeepalive := 0 // KEEPALIVE replies the prefix must trigger
		wantUpdates := 0
		var sentBodies [][]byte
		fat, fatUpdates := false, 0
		wantEst := p.State == stEstablished
		state := p.State
		for k := 0; k < p.Prefix; k++ {
			switch state {
			case stOpenSent:
				stream = append(stream, wire.Msg(wire.TypeOpen, rc.StdOpen(ps.RemoteAS, v.RemoteHold, remoteIDu).Body())...)
				wantKeepalive++
				state = stOpenConfirm
			case stOpenConfirm:
				stream = append(stream, wire.Keepalive()...)
				state = stEstablished
				wantEst = true
			case stEstablished:
				switch k := r.IntN(8); {
				case k < 2:
					stream = append(stream, wire.Keepalive()...)
				case k == 2 && !fat:
					// a type-4 message with a body: its length field still delimits it. The body
					// looks like an UPDATE so that framing it by type instead would be visible.
					// (RFC 4271 would also allow Bad Message Length here; see the oracle below.)
					fat = true
					fatUpdates = wantUpdates
					stream = append(stream, wire.Msg(wire.TypeKeepalive, wire.Update([]byte{0xFA, 0x7F, 0xFA, 0x7F}))...)
				case k == 3:
					sentBodies = append(sentBodies, nil) // an UPDATE with an empty body: length field 19
					stream = append(stream, wire.Update(nil)...)
					wantUpdates++
				default:
					sentBodies = append(sentBodies, updBody(rc.ID, wantUpdates))
					stream = append(stream, wire.Update(updBody(rc.ID, wantUpdates))...)
					wantUpdates++
				}
			}
		}
		faultAt := len(stream)
		stream = append(stream, hdr...)
		l := int(hdr[16])<<8 | int(hdr[17])
		if l >= 19 && l <= 4096 {
			body := make([]byte, l-19)
			for i := range body {
				body[i] = byte(r.Uint32())
			}
			stream = append(stream, body...)
		}
		// suffix: would be legal progress in the state reached
		suffixAt := len(stream)
		switch state {
		case stOpenSent:
			stream = append(stream, wire.Msg(wire.TypeOpen, rc.StdOpen(ps.RemoteAS, 90, remoteIDu).Body())...)
		case stOpenConfirm:
			stream = append(stream, wire.Keepalive()...)
		case stEstablished:
			stream = append(stream, wire.Update(updBody(rc.ID, 9999))...)
		}
		closeAfter := mix(p.Seed)%3 == 0 && r.IntN(2) == 0
		if closeAfter {
			stream = stream[:suffixAt] // the stream ends with the faulty message: its last bytes come with the EOF
		}
		cs := cuts(r, len(stream))
		if r.IntN(2) == 0 { // also cut exactly around the faulty header
			cs = append(cs, faultAt, faultAt+1+r.IntN(18), faultAt+19)
			sortInts(cs)
		}
		// a remote that does not drain its socket at the moment of the fault: corebgp's
		// answer takes six seconds to get out, and gets out
		blocked := mix(p.Seed)%7 == 3 && p.Prefix == 0 && v.Storm == 0 && !v.Echo && !closeAfter
		if blocked {
			rc.Pair.SetWriteDelay0(func() time.Duration { return 6 * time.Second })
		}
		rc.W.Log.Add("tx", ps.Addr.String(), rc.ID, fmt.Sprintf("stream prefix=%d header=%s", p.Prefix, p.Header), "")
		v.Kick()
		rc.SendCuts(stream, cs, time.Nanosecond)
		if closeAfter {
			// the remote hangs up at once: in these worlds the last bytes reach corebgp
			// together with the end of the stream; what was sent still counts
			rc.Pair.Configure(func(pp *memnet.Pair) { pp.WriteAfterPeerCloseOK = true })
			rc.Close()
		}
		w.Settle()
		if blocked {
			time.Sleep(6500 * time.Millisecond)
			w.Settle()
		}

		desc := fmt.Sprintf("[%s/%s prefix=%d header=%s]", p.Dir, p.State, p.Prefix, p.Header)
		got := sansEcho(rc.Msgs()[base:])
		eof, _ := rc.EOF()
		if closeAfter {
			eof = rc.Pair.Closed(0) > 0
		}
		// expected: wantKeepalive KEEPALIVEs, then exactly one NOTIFICATION among the allowed, then EOF
		nk := 0
		for len(got) > 0 && got[0].Type == wire.TypeKeepalive && nk < wantKeepalive {
			got = got[1:]
			nk++
		}
		if nk != wantKeepalive {
			w.Violate("%s a well-formed OPEN preceding the faulty header was not answered by KEEPALIVE", desc)
		}
		fatRejected := false
		if fat && len(got) == 1 && got[0].Type == wire.TypeNotification && got[0].Notif.Code == 1 && got[0].Notif.Sub == 2 && len(got[0].Notif.Data) == 0 {
			// the KEEPALIVE with a body was itself refused with Bad Message Length: also
			// correct; nothing after it may have been interpreted
			if _, _, ssx := s.mon.Snapshot(); len(ssx) > sess0 && len(ssx[sess0].Updates) == fatUpdates {
				fatRejected = true
				wantUpdates = fatUpdates
				sentBodies = sentBodies[:fatUpdates]
			}
		}
		if fatRejected {
			// judged above
		} else if len(got) != 1 || got[0].Type != wire.TypeNotification {
			w.Violate("%s expected exactly one NOTIFICATION for header faults %v, got [%s]", desc, faults, typesOf(got))
		} else {
			n := got[0].Notif
			ok := false
			for _, f := range faults {
				if f.Code == n.Code && f.Sub == n.Sub && (f.Sub != 3 && len(n.Data) == 0 || f.Sub == 3 && string(f.Data) == string(n.Data)) {
					ok = true
				}
			}
			if !ok {
				w.Violate("%s NOTIFICATION %v is not the one prescribed for any fault present in the header: %v", desc, n, faults)
			}
		}
		if !eof {
			w.Violate("%s connection not closed after the header error", desc)
		}
		_, opens, ss := s.mon.Snapshot()
		ss = ss[sess0:]
		wantOpens := sess0
		if p.State != stOpenSent || wantKeepalive > 0 {
			wantOpens++
		}
		if len(opens) != wantOpens {
			w.Violate("%s OnOpenMessage count %d, want %d (messages after the fault must not be interpreted; those before must)", desc, len(opens), wantOpens)
		}
		if wantEst != (len(ss) == 1) {
			w.Violate("%s OnEstablished count %d, want established=%v (messages after the fault must not be interpreted; those before must)", desc, len(ss), wantEst)
		}
		if len(ss) == 1 {
			if len(ss[0].Updates) != wantUpdates {
				w.Violate("%s %d UPDATEs delivered, want %d (those before the fault, none after)", desc, len(ss[0].Updates), wantUpdates)
			}
			for i, u := range ss[0].Updates {
				if i < len(sentBodies) && string(u.Body) != string(sentBodies[i]) {
					w.Violate("%s UPDATE %d delivered with body %x, sent %x (messages are delimited by the length field alone)", desc, i, u.Body, sentBodies[i])
				}
			}
			if ss[0].CloseExit < 0 {
				w.Violate("%s OnClose not delivered after the header error ended an Established session", desc)
			}
		}
	})
	fs := ""
	for _, f := range faults {
		fs += fmt.Sprint(f.Sub)
	}
	return worldResult(out, true, fmt.Sprintf("|%s %s %s p%d", fs, p.Dir, p.State, p.Prefix), map[string]int{"headers": 1})
}

func mkHeader(marker []byte, l int, typ uint8) string {
	return hex.EncodeToString(wire.RawHeader(marker, uint16(l), typ))
}

func TestC08(t *testing.T) {
	c := rt.Get()
	type hcase struct {
		hdr string
	}
	var hs []string
	types := []uint8{1, 2, 3, 4, 0, 5, 6, 255}
	// length faults (and valid lengths with unknown types)
	addLen := func(l int) {
		for _, ty := range types {
			valid := l >= 19 && l <= 4096
			if valid && ty >= 1 && ty <= 4 {
				continue // no header fault: not this property's business
			}
			hs = append(hs, mkHeader(nil, l, ty))
		}
	}
	if c.Thorough() {
		for l := 0; l < 65536; l++ {
			addLen(l)
		}
	} else {
		for l := 0; l <= 64; l++ {
			addLen(l)
		}
		for l := 4077; l <= 4115; l++ {
			addLen(l)
		}
		for _, l := range []int{255, 256, 4000, 8192, 32767, 32768, 65534, 65535} {
			addLen(l)
		}
		r := c.Rand("c08len", 0)
		for i := 0; i < 250; i++ {
			addLen(r.IntN(65536))
		}
	}
	// marker corruptions
	for pos := 0; pos < 16; pos++ {
		for _, v := range []byte{0x00, 0x7f, 0xfe} {
			m := make([]byte, 16)
			for i := range m {
				m[i] = 0xff
			}
			m[pos] = v
			hs = append(hs, mkHeader(m, 19, 4), mkHeader(m, 29, 2), mkHeader(m, 18, 4), mkHeader(m, 19, 9), mkHeader(m, 65535, 0))
		}
	}
	// marker corruptions next to 0xFF octets in the length and type fields (a marker is
	// sixteen 0xFF octets in its sixteen positions, not sixteen 0xFF octets anywhere)
	for _, pos := range [][]int{{0}, {7}, {15}, {3, 12}, {0, 8, 15}} {
		for _, v := range []byte{0x00, 0xfe} {
			m := make([]byte, 16)
			for i := range m {
				m[i] = 0xff
			}
			for _, q := range pos {
				m[q] = v
			}
			for _, l := range []int{0x00ff, 0x01ff, 0x0fff, 0xff00, 0xffff} {
				for _, ty := range []uint8{2, 4, 255} {
					hs = append(hs, mkHeader(m, l, ty))
				}
			}
		}
	}
	hs = append(hs, mkHeader(make([]byte, 16), 19, 4), mkHeader(make([]byte, 16), 0, 0))
	// all 256 types at lengths 19 and 23
	for ty := 0; ty < 256; ty++ {
		if ty >= 1 && ty <= 4 {
			continue
		}
		hs = append(hs, mkHeader(nil, 19, uint8(ty)), mkHeader(nil, 23, uint8(ty)))
	}
	c.Info("headers", map[string]any{"distinct_faulty_headers": len(hs), "exhaustive_lengths": c.Thorough()})
	idx := 0
	reps := c.N(2, 1)
	for _, h := range hs {
		for rep := 0; rep < reps; rep++ {
			for si, st := range allStates {
				if c.Mine("hdr", idx) {
					r := c.Rand("c08hdr", idx)
					p := c08Params{Dir: allDirs[r.IntN(2)], State: st, Header: h, Prefix: r.IntN(4), Seed: uint64(idx)*2246822519 + c.Seed, Hook: hookMode(r)}
					_ = si
					i := idx
					runCase(t, "hdr", i, p, func(t *testing.T) rt.Result { return c08World(t, p) })
				}
				idx++
			}
		}
	}
	// NOTIFICATION fidelity: what the plugin returns is what reaches the wire
	dl := []int{0, 1, 2, 3, 255, 256, 4075}
	n := c.N(4000, 65536*2)
	for i := 0; i < n; i++ {
		if !c.Mine("fidelity", i) {
			continue
		}
		r := c.Rand("c08fid", i)
		code, sub := uint8(r.IntN(256)), uint8(r.IntN(256))
		if c.Thorough() {
			code, sub = uint8(i>>8), uint8(i)
		} else if i < 1792 {
			code, sub = uint8(i>>8), uint8(i)
		}
		dlen := dl[r.IntN(len(dl))]
		fromOpen := r.IntN(3) == 0
		dir := allDirs[r.IntN(2)]
		p := map[string]any{"code": code, "sub": sub, "data_len": dlen, "from": map[bool]string{true: "OnOpenMessage", false: "handler"}[fromOpen], "dir": dir}
		seed := uint64(i)*3266489917 + c.Seed
		hook := hookMode(r)
		runCase(t, "fidelity", i, p, func(t *testing.T) rt.Result {
			data := make([]byte, dlen)
			for k := range data {
				data[k] = byte(r.Uint32())
			}
			n := &corebgp.Notification{Code: code, Subcode: sub, Data: data}
			out := hz.Run(t, hz.Opts{Seed: seed, HookMode: hook}, func(w *hz.World) {
				ps := hz.StdPeer("10.0.1.1")
				ps.Passive = dir == "in"
				if fromOpen {
					ps.Cfg.OnOpen = func(int, netip.Addr, []corebgp.Capability) *corebgp.Notification { return n }
				} else {
					ps.Cfg.OnUpdate = func(*hz.Session, int, []byte) *corebgp.Notification { return n }
				}
				var s *sess
				if fromOpen {
					s = bring(w, ps, dir, stOpenSent, 90)
				} else {
					s = bring(w, ps, dir, stEstablished, 90)
				}
				if s == nil {
					return
				}
				base := len(s.rc.Msgs())
				if fromOpen {
					s.rc.SendOpen(s.rc.StdOpen(ps.RemoteAS, 90, remoteIDu))
				} else {
					s.rc.SendUpdate(updBody(s.rc.ID, 0))
				}
				w.Settle()
				got := s.rc.Msgs()[base:]
				want := &wire.Notif{Code: code, Sub: sub, Data: data}
				if len(got) != 1 || got[0].Type != wire.TypeNotification || got[0].Notif.String() != want.String() {
					w.Violate("NOTIFICATION %v returned by the plugin (%v) reached the wire as [%s]", want, p["from"], typesOf(got))
				}
				if eof, _ := s.rc.EOF(); !eof {
					w.Violate("connection not closed after the plugin's NOTIFICATION")
				}
			})
			return worldResult(out, true, fmt.Sprintf("|%d %v %s", dlen, fromOpen, dir), map[string]int{"notifications": 1})
		})
	}
}
