package fsm

import (
	"fmt"
	"net"
	"net/netip"
	"strings"
	"sync"
	"testing"
	"time"

	"github.com/jwhited/corebgp"

	"verif/internal/hz"
	"verif/internal/rt"
	"verif/internal/wire"
)

// C13: only connections from configured peers to the configured address are
// served; everything else is closed without a byte, a callback or an effect.

type c13Peer struct {
	Addr    string
	Local   string // "" = no local address configured
	Passive bool
	State   string // idle | in-opensent | in-openconfirm | est-in | est-out | out-opensent | helddown | deleted
}

type c13Params struct {
	Peers []c13Peer
	Seed  uint64
	Hook  int
}

var (
	c13PeerAddrs = []string{"10.0.1.1", "10.0.1.2", "2001:db8::1", "2001:db8::2"}
	c13Locals4   = []string{"", "10.0.0.1", "10.0.0.9"}
	c13Locals6   = []string{"", "2001:db8::100", "2001:db8::200"}
	c13Srcs      = []string{"10.0.1.1", "10.0.1.2", "2001:db8::1", "2001:db8::2", "10.0.1.77", "2001:db8::77", "10.0.0.1"}
	// (10.0.0.10, 10.0.0.100 and 2001:db8::1000 begin like configured local addresses)
	c13Dsts = []string{"10.0.0.1", "10.0.0.9", "2001:db8::100", "2001:db8::200", "10.0.0.10", "10.0.0.100", "2001:db8::1000"}
	// helddown: NOTIFICATION received in OpenSent; -hdr: bad header sent by the remote in
	// OpenConfirm; -fsm: a second OPEN in Established; -again: held down, quiet for more
	// than 300 s, then a second protocol error; -7: NOTIFICATION with a code above Cease;
	// -long: a second protocol error right after the first hold-down, probed 61 s later
	// (the second hold-down lasts 120 s); -plug: the plugin's update handler returned a
	// NOTIFICATION
	c13States = []string{"idle", "in-opensent", "in-openconfirm", "est-in", "est-out", "out-opensent", "helddown", "deleted", "helddown-hdr", "helddown-fsm", "helddown-again", "helddown-7", "helddown-long", "helddown-plug", "out-openconfirm"}
)

// admit is the reference predicate (DESIGN.md Appendix A.7).
func admit(src, dst string, peers []c13Peer) bool {
	for _, p := range peers {
		if p.Addr != src {
			continue
		}
		if p.Local != "" && p.Local != dst {
			return false
		}
		switch p.State {
		case "idle", "out-opensent", "out-openconfirm": // (an outbound connection that is not Established does not close the door)
			return true
		}
		return false // inbound in progress, Established, held down, deleted
	}
	return false
}

func c13World(t *testing.T, p c13Params) rt.Result {
	nAdmit, nRefuse := 0, 0
	lr := rt.Get().Rand("c13lis", int(p.Seed))
	out := hz.Run(t, hz.Opts{Seed: p.Seed, HookMode: p.Hook, ExtraListeners: int(mix(p.Seed) % 3)}, func(w *hz.World) {
		nl := 1 + len(w.Extra)
		mons := map[string]*hz.PeerMon{}
		live := map[string]*hz.RConn{} // the connection that carries a peer's Established session
		var amu sync.Mutex             // the dial goroutines of several peers consult the policy concurrently
		acceptFor := map[netip.Addr]bool{}
		w.DialPolicy = func(r hz.DialReq) (hz.DialAction, time.Duration) {
			amu.Lock()
			defer amu.Unlock()
			if acceptFor[r.Peer] {
				acceptFor[r.Peer] = false
				return hz.DialAccept, 0
			}
			return hz.DialRefuse, 0
		}
		localFor := func(pp c13Peer) netip.Addr {
			if pp.Local != "" {
				return netip.MustParseAddr(pp.Local)
			}
			if netip.MustParseAddr(pp.Addr).Is4() {
				return netip.MustParseAddr("10.0.0.1")
			}
			return netip.MustParseAddr("2001:db8::100")
		}
		mkSpec := func(pp c13Peer) hz.PeerSpec {
			ps := hz.StdPeer(pp.Addr)
			ps.Hold = 90
			ps.Passive = pp.Passive
			if pp.Local != "" {
				ps.LocalAddress = netip.MustParseAddr(pp.Local)
			}
			ps.Cfg.OnUpdate = func(_ *hz.Session, _ int, body []byte) *corebgp.Notification {
				if len(body) == 4 && body[0] == 0xEE { // the UPDATE the plugin refuses
					return &corebgp.Notification{Code: 3, Subcode: 1}
				}
				return nil
			}
			return ps
		}
		// peers with a two-error history first, all at once: the other states would not
		// survive the 362 s of virtual time it takes
		var again []*hz.RConn
		history := func(st string) bool { return st == "helddown-again" || st == "helddown-long" }
		anyLong := false
		for _, pp := range p.Peers {
			anyLong = anyLong || pp.State == "helddown-long"
			if pp.State != "helddown-again" {
				continue
			}
			ps := mkSpec(pp)
			mons[pp.Addr] = w.MustAddPeer(ps)
			rc := w.ConnectTo(ps.Addr, localFor(pp))
			w.Settle()
			if len(rc.Msgs()) != 1 {
				w.Violate("setup: peer %s did not serve its first inbound connection", pp.Addr)
				return
			}
			rc.SendNotification(3, 1, nil)
			again = append(again, rc)
		}
		if len(again) > 0 || anyLong {
			w.Settle()
			// timeline: +240 s first error of the -long peers, +301 s their second one (their
			// first hold-down of 60 s is over, the second one lasts 120 s, until +421 s),
			// +362 s second error of the -again peers; the lattice follows at once
			time.Sleep(240 * time.Second)
			for round := 0; round < 2 && anyLong; round++ {
				for _, pp := range p.Peers {
					if pp.State != "helddown-long" {
						continue
					}
					if round == 0 {
						mons[pp.Addr] = w.MustAddPeer(mkSpec(pp))
					}
					rc := w.ConnectTo(netip.MustParseAddr(pp.Addr), localFor(pp))
					w.Settle()
					if len(rc.Msgs()) != 1 {
						w.Violate("setup: peer %s did not serve its inbound connection (round %d of its two-error history)", pp.Addr, round)
						return
					}
					rc.SendNotification(3, 1, nil)
					w.Settle()
				}
				if round == 0 {
					time.Sleep(61 * time.Second)
				}
			}
			if d := 362*time.Second - w.Now(); d > 0 {
				time.Sleep(d)
			}
			for _, pp := range p.Peers {
				if pp.State != "helddown-again" {
					continue
				}
				rc := w.ConnectTo(netip.MustParseAddr(pp.Addr), localFor(pp))
				w.Settle()
				if len(rc.Msgs()) != 1 {
					w.Violate("setup: peer %s did not serve an inbound connection 362 s after its protocol error", pp.Addr)
					return
				}
				rc.SendNotification(2, 2, nil)
				w.Settle()
				if eof, _ := rc.EOF(); !eof {
					w.Violate("setup: the second protocol error did not end the connection of %s", pp.Addr)
					return
				}
			}
		}
		for _, pp := range p.Peers {
			if history(pp.State) {
				continue
			}
			ps := mkSpec(pp)
			if pp.State == "est-out" || pp.State == "out-opensent" || pp.State == "out-openconfirm" {
				amu.Lock()
				acceptFor[ps.Addr] = true
				amu.Unlock()
			}
			mon := w.MustAddPeer(ps)
			mons[pp.Addr] = mon
			dst := localFor(pp)
			switch pp.State {
			case "in-opensent", "in-openconfirm", "est-in", "helddown", "helddown-hdr", "helddown-fsm", "helddown-7", "helddown-plug":
				rc := w.ConnectTo(ps.Addr, dst)
				w.Settle()
				if len(rc.Msgs()) != 1 {
					w.Violate("setup: peer %s did not serve its first inbound connection", pp.Addr)
					return
				}
				switch pp.State {
				case "helddown-7":
					rc.SendNotification(7, 1, nil)
					w.Settle()
				case "helddown-plug":
					rc.SendOpen(rc.StdOpen(ps.RemoteAS, 90, remoteIDu))
					w.Settle()
					rc.SendKeepalive()
					w.Settle()
					rc.SendUpdate([]byte{0xEE, 0, 0, 0})
					w.Settle()
				case "helddown-hdr":
					rc.SendOpen(rc.StdOpen(ps.RemoteAS, 90, remoteIDu))
					w.Settle()
					rc.SendMsg("BAD-HEADER", wire.RawHeader(make([]byte, 16), 19, 4))
					w.Settle()
				case "helddown-fsm":
					rc.SendOpen(rc.StdOpen(ps.RemoteAS, 90, remoteIDu))
					w.Settle()
					rc.SendKeepalive()
					w.Settle()
					rc.SendOpen(rc.StdOpen(ps.RemoteAS, 90, remoteIDu))
					w.Settle()
				}
				if strings.HasPrefix(pp.State, "helddown-") {
					if eof, _ := rc.EOF(); !eof {
						w.Violate("setup: the protocol error (%s) did not end the connection of %s", pp.State, pp.Addr)
						return
					}
					break
				}
				if pp.State == "helddown" {
					rc.SendNotification(2, 2, nil)
					w.Settle()
					break
				}
				if pp.State != "in-opensent" {
					rc.SendOpen(rc.StdOpen(ps.RemoteAS, 90, remoteIDu))
					w.Settle()
				}
				if pp.State == "est-in" {
					rc.SendKeepalive()
					w.Settle()
					if !mon.Up() {
						w.Violate("setup: inbound session of %s did not establish", pp.Addr)
						return
					}
					live[pp.Addr] = rc
				}
			case "est-out", "out-opensent", "out-openconfirm":
				var rc *hz.RConn
				for _, c := range w.OutConns() {
					if c.PeerIP == ps.Addr {
						rc = c
					}
				}
				if rc == nil {
					w.Settle()
					for _, c := range w.OutConns() {
						if c.PeerIP == ps.Addr {
							rc = c
						}
					}
				}
				if rc == nil {
					w.Violate("setup: peer %s did not dial", pp.Addr)
					return
				}
				w.Settle()
				if pp.State == "out-openconfirm" {
					rc.SendOpen(rc.StdOpen(ps.RemoteAS, 90, remoteIDu))
					w.Settle()
					if ms := rc.Msgs(); len(ms) != 2 || ms[1].Type != wire.TypeKeepalive {
						w.Violate("setup: OPEN exchange on the outbound connection of %s: [%s]", pp.Addr, typesOf(ms))
						return
					}
				}
				if pp.State == "est-out" {
					if !rc.Handshake(ps.RemoteAS, 90, remoteIDu) {
						w.Violate("setup: outbound handshake with %s failed", pp.Addr)
						return
					}
					w.Settle()
					live[pp.Addr] = rc
				}
			case "deleted":
				if err := w.DeletePeer(ps.Addr); err != nil {
					w.Violate("setup: DeletePeer: %v", err)
				}
				delete(mons, pp.Addr)
			}
		}
		callbacks := func() int {
			n := 0
			for _, m := range mons {
				gc, op, ss := m.Snapshot()
				n += len(gc) + len(op) + len(ss)
				for _, s := range ss {
					n += len(s.Updates)
					if s.CloseEnter >= 0 {
						n += 1000
					}
				}
			}
			return n
		}
		// the (source, destination) lattice
		for _, src := range c13Srcs {
			for _, dst := range c13Dsts {
				want := admit(src, dst, p.Peers)
				before := callbacks()
				via := lr.IntN(nl)
				rc := w.ConnectVia(via, netip.MustParseAddr(src), netip.MustParseAddr(dst))
				w.Settle()
				ms := rc.Msgs()
				served := len(ms) > 0
				desc := fmt.Sprintf("[connection %s -> %s via listener %d of %d; peers %+v]", src, dst, via, nl, p.Peers)
				if served != want {
					if want {
						w.Violate("%s must be handed to a BGP session (OPEN expected) but got [%s] eof=%v", desc, typesOf(ms), func() bool { e, _ := rc.EOF(); return e }())
					} else {
						w.Violate("%s must be refused but corebgp sent [%s]", desc, typesOf(ms))
					}
					return
				}
				if !want {
					nRefuse++
					if rc.Received() != 0 {
						w.Violate("%s refused connection received %d bytes", desc, rc.Received())
					}
					if eof, _ := rc.EOF(); !eof {
						w.Violate("%s refused connection was not closed", desc)
					}
					if after := callbacks(); after != before {
						w.Violate("%s refused connection triggered plugin callbacks", desc)
					}
				} else {
					nAdmit++
					if ms[0].Type != wire.TypeOpen {
						w.Violate("%s admitted connection got %s instead of an OPEN", desc, ms[0].Message)
					}
					rc.Close() // dismiss: the peer returns to its previous state
					w.Settle()
				}
			}
		}
		// address forms a real listener can present: an IPv4 peer seen through a
		// dual-stack socket (16-byte IPv4-mapped TCPAddr), and non-TCP addresses
		probe := func(desc string, want bool, rc *hz.RConn) {
			w.Settle()
			ms := rc.Msgs()
			if (len(ms) > 0) != want {
				if want {
					w.Violate("[%s; peers %+v] must be handed to a BGP session (OPEN expected) but got [%s]", desc, p.Peers, typesOf(ms))
				} else {
					w.Violate("[%s; peers %+v] must be refused but corebgp sent [%s]", desc, p.Peers, typesOf(ms))
				}
				return
			}
			if want {
				nAdmit++
				rc.Close()
				w.Settle()
				return
			}
			nRefuse++
			if eof, _ := rc.EOF(); !eof || rc.Received() != 0 {
				w.Violate("[%s; peers %+v] refused connection was not closed silently (eof=%v, %d bytes)", desc, p.Peers, eof, rc.Received())
			}
		}
		unix := &net.UnixAddr{Name: "/run/bgp.sock", Net: "unix"}
		for _, pp := range p.Peers {
			a := netip.MustParseAddr(pp.Addr)
			dst := localFor(pp)
			want := admit(pp.Addr, dst.String(), p.Peers)
			if a.Is4() {
				src16 := &net.TCPAddr{IP: net.IP(a.AsSlice()).To16(), Port: 40123}
				dst16 := &net.TCPAddr{IP: net.IP(dst.AsSlice()).To16(), Port: 179}
				probe(fmt.Sprintf("connection %s -> %s presented as IPv4-mapped TCP addresses (dual-stack listener)", pp.Addr, dst), want, w.ConnectRaw(lr.IntN(nl), a, src16, dst16))
			}
			// destination that is not an IP endpoint: only a peer without a configured local address can match
			src := net.TCPAddrFromAddrPort(netip.AddrPortFrom(a, 40124))
			probe(fmt.Sprintf("connection %s -> non-IP local address", pp.Addr), want && pp.Local == "", w.ConnectRaw(lr.IntN(nl), a, src, unix))
		}
		probe("connection from a non-IP remote address", false, w.ConnectRaw(lr.IntN(nl), netip.MustParseAddr("10.0.1.77"), unix, net.TCPAddrFromAddrPort(netip.AddrPortFrom(netip.MustParseAddr("10.0.0.1"), 179))))
		// bursts: three connections from one configured peer at the same virtual
		// instant; at most one may be served, the others are closed without a byte
		// and none may be left open (the accountant at Close catches a forgotten one)
		for _, pp := range p.Peers {
			if pp.State == "deleted" {
				continue
			}
			dst := localFor(pp)
			var cs []*hz.RConn
			for k := 0; k < 3; k++ {
				cs = append(cs, w.ConnectTo(netip.MustParseAddr(pp.Addr), dst))
			}
			w.Settle()
			served := 0
			for _, c := range cs {
				if len(c.Msgs()) > 0 {
					served++
					continue
				}
				if eof, _ := c.EOF(); !eof || c.Received() != 0 {
					w.Violate("burst of 3 connections from %s: a connection that was not served was not closed silently (eof=%v, %d bytes)", pp.Addr, eof, c.Received())
				}
			}
			want := 0
			if admit(pp.Addr, dst.String(), p.Peers) {
				want = 1
			}
			if served != want {
				w.Violate("burst of 3 simultaneous connections from %s (state %s): %d served, want %d", pp.Addr, pp.State, served, want)
			}
			for _, c := range cs {
				c.Close()
			}
			w.Settle()
		}
		// a connection arriving at the instant the peer's outbound session becomes
		// Established is refused or killed, never forgotten: whatever happens it ends up
		// closed (the accountant at Close finds a connection left open)
		for _, pp := range p.Peers {
			if pp.State != "out-opensent" {
				continue
			}
			var oc *hz.RConn
			for _, c := range w.OutConns() {
				if c.PeerIP == netip.MustParseAddr(pp.Addr) {
					oc = c
				}
			}
			if oc == nil {
				continue
			}
			if eof, _ := oc.EOF(); eof {
				continue
			}
			oc.SendOpen(oc.StdOpen(remoteAS, 90, remoteIDu))
			w.Settle()
			dst := localFor(pp)
			oc.SendKeepalive()
			c1 := w.ConnectTo(netip.MustParseAddr(pp.Addr), dst)
			time.Sleep(time.Duration(lr.IntN(3000)))
			c2 := w.ConnectTo(netip.MustParseAddr(pp.Addr), dst)
			w.Settle()
			for _, c := range []*hz.RConn{c1, c2} {
				if eof, _ := c.EOF(); !eof {
					if m := mons[pp.Addr]; m != nil && m.Up() && len(c.Msgs()) <= 1 {
						w.Violate("an inbound connection from %s that arrived while its outbound session was becoming Established was neither closed nor served (messages: [%s])", pp.Addr, typesOf(c.Msgs()))
					}
				}
			}
		}
		// existing sessions are unaffected
		for a, rc := range live {
			m := mons[a]
			if m == nil {
				continue
			}
			if !m.Up() {
				w.Violate("the Established session of %s did not survive the connection attempts", a)
				continue
			}
			n := len(m.Cur().Updates)
			rc.SendUpdate(updBody(rc.ID, n))
			w.Settle()
			if cur := m.Cur(); cur == nil || len(cur.Updates) != n+1 {
				w.Violate("the Established session of %s no longer delivers UPDATEs after the connection attempts", a)
			}
			if eof, _ := rc.EOF(); eof {
				w.Violate("the Established session of %s was closed by a connection attempt", a)
			}
		}
	})
	return worldResult(out, nAdmit+nRefuse > 0, fmt.Sprintf("|%+v", p.Peers), map[string]int{"admitted": nAdmit, "refused": nRefuse, "worlds": 1})
}

func TestC13(t *testing.T) {
	c := rt.Get()
	n := c.N(4000, 300000)
	for i := 0; i < n; i++ {
		if !c.Mine("lattice", i) {
			continue
		}
		r := c.Rand("c13", i)
		p := c13Params{Seed: uint64(i)*22695477 + c.Seed, Hook: hookMode(r)}
		np := 1 + r.IntN(4)
		perm := r.Perm(len(c13PeerAddrs))
		for k := 0; k < np; k++ {
			a := c13PeerAddrs[perm[k]]
			locals := c13Locals4
			if !netip.MustParseAddr(a).Is4() {
				locals = c13Locals6
			}
			pp := c13Peer{Addr: a, Local: locals[r.IntN(len(locals))], Passive: r.IntN(2) == 0, State: c13States[r.IntN(len(c13States))]}
			if i < len(c13States)*3 && k == 0 { // every state x local-address kind occurs
				pp.State = c13States[i%len(c13States)]
				pp.Local = locals[(i/len(c13States))%3]
			}
			if pp.State == "est-out" || pp.State == "out-opensent" || pp.State == "out-openconfirm" {
				pp.Passive = false
			}
			p.Peers = append(p.Peers, pp)
		}
		runCase(t, "lattice", i, p, func(t *testing.T) rt.Result { return c13World(t, p) })
	}
}
