package fsm

import (
	"fmt"
	"math/rand/v2"
	"sync"
	"testing"
	"time"

	"github.com/jwhited/corebgp"

	"verif/internal/hz"
	"verif/internal/rt"
	"verif/internal/wire"
)

// C06: hold time negotiation, hold-timer expiry and keepalive cadence, all in
// virtual time (exact arithmetic on the remote's timestamps).

type c06Sess struct {
	Remote  int    // hold time proposed by the remote
	Traffic string // silent | ka | upd | mixed | ocsilent | busy | cease
	Local   string // none | burst | periodic  (local WriteUpdate pattern)
}

type c06Params struct {
	NilH     bool // the plugin returns a nil UpdateMessageHandler
	Dir      string
	LocalH   int
	Sessions []c06Sess
	Seed     uint64
	Hook     int
}

const c06Tol = 5 * time.Millisecond

func c06World(t *testing.T, p c06Params) rt.Result {
	maxH := p.LocalH
	for _, s := range p.Sessions {
		if s.Remote > maxH {
			maxH = s.Remote
		}
	}
	nExp, nKA := 0, 0
	out := hz.Run(t, hz.Opts{Seed: p.Seed, HookMode: p.Hook, Limit: time.Duration(maxH)*time.Second*40 + 3*time.Hour}, func(w *hz.World) {
		r := rand.New(rand.NewPCG(p.Seed, 17))
		ps := hz.StdPeer("10.0.1.1")
		ps.Hold = p.LocalH
		ps.Passive = p.Dir == "in"
		ps.IdleHold = time.Second
		ps.Cfg.NilHandler = p.NilH
		// a plugin that needs 300 ms in OnEstablished (a third of the worlds): the hold
		// timer runs on meanwhile; a KEEPALIVE that falls due in that time is that late
		estDelay := time.Duration(0)
		if mix(p.Seed)%3 == 2 {
			estDelay = 300 * time.Millisecond
		}
		if mix(p.Seed)%3 == 1 {
			// a plugin that takes half a second to clean up: the connection is closed when
			// the hold timer expires, not when the plugin is done
			ps.Cfg.OnCloseFn = func(*hz.Session) { time.Sleep(500 * time.Millisecond) }
		}
		// a slow socket in a fifth of the worlds: three writes in ten take 200 ms to take
		// effect (while the session is up); what is measured then is allowed that much more
		stall := time.Duration(0)
		if mix(p.Seed)%5 == 2 {
			stall = 200 * time.Millisecond
		}
		// up to three delays add up before a hold-timer expiry is on the wire: the last message
		// was taken over late (the FSM was inside a delayed write), the FSM is inside another
		// delayed write when the timer fires, and the NOTIFICATION itself is delayed
		tol := c06Tol + 3*stall
		sr := rand.New(rand.NewPCG(p.Seed, 607))
		var smu sync.Mutex
		stallFn := func() time.Duration {
			smu.Lock()
			defer smu.Unlock()
			if sr.IntN(10) < 3 {
				return stall
			}
			return 0
		}
		var wmu sync.Mutex
		var curLocal string
		var curH time.Duration
		var busyFor time.Duration // the handler is busy that long on the session's first UPDATE
		ps.Cfg.OnUpdate = func(s *hz.Session, idx int, body []byte) *corebgp.Notification {
			wmu.Lock()
			d := busyFor
			wmu.Unlock()
			if idx == 0 && d > 0 {
				time.Sleep(d)
			}
			return nil
		}
		stopW := make(chan struct{})
		var lwg sync.WaitGroup
		ps.Cfg.OnEst = func(s *hz.Session) {
			if estDelay > 0 {
				time.Sleep(estDelay)
			}
			wmu.Lock()
			pat, H := curLocal, curH
			wmu.Unlock()
			if pat == "none" {
				return
			}
			lwg.Add(1)
			go func() {
				defer lwg.Done()
				body := []byte{0, 0, 0, 0}
				if pat == "burst" {
					for i := 0; i < 20; i++ {
						if s.Writer.WriteUpdate(body) != nil {
							return
						}
					}
					return
				}
				// periodic: a little under a third of the hold time (or 1 s when there is none)
				iv := H/3 - 10*time.Millisecond
				if H == 0 {
					iv = time.Second
				}
				wr := rand.New(rand.NewPCG(p.Seed, uint64(s.Epoch)+606))
				for i := 0; i < 40; i++ {
					d := iv
					if pat == "random" && H > 0 { // anywhere within two keepalive intervals
						d = time.Duration(1 + wr.Int64N(int64(2*H/3)))
					}
					select {
					case <-stopW:
						return
					case <-time.After(d):
					}
					if s.Writer.WriteUpdate(body) != nil {
						return
					}
				}
			}()
		}
		w.DialPolicy = func(hz.DialReq) (hz.DialAction, time.Duration) { return hz.DialAccept, 0 }
		mon := w.MustAddPeer(ps)
		defer func() { // no local writer outlives the scenario (one may be inside a delayed write)
			close(stopW)
			lwg.Wait()
		}()
		nconn := 0
		for si, sp := range p.Sessions {
			desc := fmt.Sprintf("[%s local=%d session %d: remote=%d traffic=%s local-writes=%s]", p.Dir, p.LocalH, si, sp.Remote, sp.Traffic, sp.Local)
			H := time.Duration(min(p.LocalH, sp.Remote)) * time.Second
			busy := sp.Traffic == "busy" && H > 0 && !p.NilH
			wmu.Lock()
			curLocal, curH, busyFor = sp.Local, H, 0
			if busy {
				busyFor = H + H/10
			}
			wmu.Unlock()
			for i := 0; i < 100 && mon.State() != "Down"; i++ {
				time.Sleep(10 * time.Millisecond) // the previous session's OnClose may take its time
			}
			var rc *hz.RConn
			if p.Dir == "in" {
				rc = w.Connect(ps.Addr)
			} else {
				nconn++
				rc = w.WaitOut(nconn, 20*time.Minute)
				if rc == nil {
					w.Violate("%s no outbound connection within 20 virtual minutes", desc)
					return
				}
			}
			w.Settle()
			ms := rc.Msgs()
			if len(ms) != 1 || ms[0].Type != wire.TypeOpen {
				w.Violate("%s no OPEN on the new connection: %s", desc, typesOf(ms))
				return
			}
			if int(ms[0].Open.Hold) != p.LocalH {
				w.Violate("%s OPEN carries hold time %d, configured %d", desc, ms[0].Open.Hold, p.LocalH)
			}
			rc.SendOpen(rc.StdOpen(ps.RemoteAS, uint16(sp.Remote), remoteIDu))
			lastRemote := w.Now() // virtual time of the remote's last KEEPALIVE/UPDATE/OPEN
			w.Settle()
			if ms = rc.Msgs(); len(ms) != 2 || ms[1].Type != wire.TypeKeepalive {
				w.Violate("%s OPEN not answered by KEEPALIVE: %s", desc, typesOf(ms))
				return
			}
			upFrom := 1 // index of the first corebgp message of the "connection is up" phase
			established := false
			if sp.Traffic != "ocsilent" {
				// the remote confirms late, but within the keepalive interval: the cadence
				// continues across the step from OpenConfirm to Established
				if H > 0 && r.IntN(2) == 0 {
					time.Sleep(time.Duration(float64(H/3) * (0.05 + 0.85*r.Float64())))
				}
				rc.SendKeepalive()
				lastRemote = w.Now()
				w.Settle()
				for i := 0; i < 50 && estDelay > 0 && !mon.Up(); i++ {
					time.Sleep(10 * time.Millisecond)
				}
				if !mon.Up() {
					w.Violate("%s session did not establish (min hold %v)", desc, H)
					return
				}
				established = true
				if stall > 0 && H >= 3*time.Second {
					rc.Pair.SetWriteDelay0(stallFn)
				}
				// remote traffic phase
				iv := H - 10*time.Millisecond
				if stall > 0 && H >= 3*time.Second {
					// while one of its own writes is delayed the FSM does not look at what it
					// has received: the remote keeps that much distance from the deadline
					iv -= stall + 50*time.Millisecond
				}
				if H == 0 {
					iv = 50 * time.Second
				}
				rounds := 4
				if H > time.Hour {
					rounds = 2
				}
				if busy {
					// the update handler is busy for longer than the hold time while the remote
					// keeps sending KEEPALIVEs well inside it: what was received meanwhile counts
					rc.SendUpdate([]byte{0, 0, 0, 0})
					for k := 0; k < 10; k++ {
						time.Sleep(H / 4)
						rc.SendKeepalive()
						lastRemote = w.Now()
						if eof, at := rc.EOF(); eof {
							w.Violate("%s session torn down at +%v although the remote sent a KEEPALIVE every %v (hold time %v) while the update handler was busy for %v; messages: %s", desc, at, H/4, H, H+H/10, tail(rc.Msgs(), 4))
							return
						}
					}
					rounds = 0
				}
				for k := 0; k < rounds && sp.Traffic != "silent"; k++ {
					d := iv
					if sp.Traffic == "mixed" {
						d = time.Duration(1 + r.Int64N(int64(iv)))
					}
					// (d after the previous message, however long the harness waited for Established)
					if wait := lastRemote + d - w.Now(); wait > 0 {
						time.Sleep(wait)
					}
					switch {
					case sp.Traffic == "ka" || sp.Traffic == "cease" || (sp.Traffic == "mixed" && r.IntN(2) == 0):
						rc.SendKeepalive()
					default:
						rc.SendUpdate([]byte{0, 0, 0, 0})
					}
					lastRemote = w.Now()
					if eof, at := rc.EOF(); eof {
						w.Violate("%s session torn down at +%v although the remote sent a message every %v (< hold time %v); messages: %s", desc, at, d, H, tail(rc.Msgs(), 4))
						return
					}
				}
			}
			if sp.Traffic == "cease" {
				// the remote ends the session itself: no protocol error, no hold-down, and an
				// outbound fsm object goes on to the next session with whatever it remembers
				rc.SendNotification(6, 2, nil)
				w.Settle()
				if stall > 0 {
					time.Sleep(stall) // the FSM may be inside a delayed write
					w.Settle()
				}
				if eof, _ := rc.EOF(); !eof {
					w.Violate("%s connection not closed after the remote's Cease", desc)
					return
				}
				if ns := notifsOf(rc.Msgs()); len(ns) != 0 {
					w.Violate("%s corebgp sent %v in a session the remote ended with a Cease after regular KEEPALIVEs", desc, ns[0])
				}
				continue
			}
			// silence
			if H == 0 {
				n0 := len(rc.Msgs())
				time.Sleep(10 * time.Minute)
				w.Settle()
				ms := rc.Msgs()
				for _, m := range ms[n0:] {
					if m.Type == wire.TypeKeepalive {
						w.Violate("%s hold time 0 but corebgp sent a periodic KEEPALIVE at +%v", desc, m.At)
						break
					}
				}
				if eof, at := rc.EOF(); eof || len(notifsOf(ms)) > 0 {
					w.Violate("%s hold time 0 but the session ended during 10 minutes of silence (eof at +%v, %s)", desc, at, tail(ms, 3))
					return
				}
				if established && !mon.Up() {
					w.Violate("%s hold time 0: plugin reports the session down", desc)
				}
				// all periodic messages in the up phase must be UPDATEs written by the plugin
				for _, m := range ms[2:] {
					if m.Type == wire.TypeKeepalive {
						w.Violate("%s hold time 0 but corebgp sent a KEEPALIVE at +%v", desc, m.At)
						break
					}
				}
				rc.SendNotification(6, 4, nil) // Cease: ends the session without damping
				w.Settle()
				continue
			}
			if !rc.WaitEOF(H + time.Second) {
				w.Violate("%s remote silent since +%v but no Hold Timer Expired + close by +%v", desc, lastRemote, lastRemote+H+time.Second)
				return
			}
			w.Settle()
			ms = rc.Msgs()
			_, eofAt := rc.EOF()
			ns := notifsOf(ms)
			if len(ns) != 1 || ns[0].Code != 4 {
				w.Violate("%s silent remote: expected a single NOTIFICATION(Hold Timer Expired) before close, got %v", desc, ns)
			} else {
				nExp++
				var nAt time.Duration
				for _, m := range ms {
					if m.Type == wire.TypeNotification {
						nAt = m.At
					}
				}
				if nAt < lastRemote+H {
					w.Violate("%s hold timer expired at +%v, only %v after the remote's last message at +%v (hold time in force %v)", desc, nAt, nAt-lastRemote, lastRemote, H)
				}
				if nAt > lastRemote+H+tol || eofAt > lastRemote+H+tol {
					w.Violate("%s hold timer expiry late: NOTIFICATION at +%v, close at +%v, due at +%v", desc, nAt, eofAt, lastRemote+H)
				}
			}
			// cadence while up: consecutive KEEPALIVE/UPDATE from corebgp never more than H/3 apart
			prev := ms[upFrom].At
			if busy {
				ms = nil // a handler that blocks the FSM for more than H/3 also holds up its KEEPALIVEs
				upFrom = -1
			}
			for _, m := range ms[upFrom+1:] {
				if m.Type == wire.TypeKeepalive {
					nKA++
				}
				if gap := m.At - prev; gap > H/3+tol+estDelay {
					w.Violate("%s %v passed between consecutive messages from corebgp (+%v -> +%v, %s); one third of the hold time is %v", desc, gap, prev, m.At, m.Message, H/3)
					break
				}
				prev = m.At
			}
			// the expiry was a protocol error: the peer is damped (at most 300 s).
			// A passive peer has nothing pending, so simply wait the maximum out;
			// an active peer dials by itself when the hold-down ends (WaitOut).
			if si < len(p.Sessions)-1 && p.Dir == "in" {
				time.Sleep(301 * time.Second)
			}
		}
	})
	return worldResult(out, true, fmt.Sprintf("|%s %d %v %v", p.Dir, p.LocalH, p.Sessions, p.NilH), map[string]int{"sessions": len(p.Sessions), "expiries_observed": nExp, "keepalives_observed": nKA})
}

func tail(ms []hz.RMsg, n int) string {
	if len(ms) > n {
		ms = ms[len(ms)-n:]
	}
	s := ""
	for _, m := range ms {
		s += fmt.Sprintf("+%v %s; ", m.At, m.Message)
	}
	return s
}

func TestC06(t *testing.T) {
	c := rt.Get()
	holds := []int{0, 3, 4, 9, 10, 30, 90, 65535}
	traffic := []string{"silent", "ka", "upd", "mixed", "ocsilent", "busy", "cease"}
	locals := []string{"none", "burst", "periodic", "random"}
	idx := 0
	// the full (local, remote) grid x traffic, single session, both directions
	for _, lh := range holds {
		for _, rh := range holds {
			for ti, tr := range traffic {
				for di, dir := range allDirs {
					p := c06Params{Dir: dir, LocalH: lh, Sessions: []c06Sess{{rh, tr, locals[(ti+di+idx)%len(locals)]}}, Seed: uint64(idx)*40503 + c.Seed, Hook: hz.HookVSleep, NilH: idx%3 == 2}
					i := idx
					runCase(t, "grid", i, p, func(t *testing.T) rt.Result { return c06World(t, p) })
					idx++
				}
			}
		}
	}
	// multi-session worlds (the outbound FSM object is reused: stale timer state) and random pairs
	n := c.N(3000, 200000)
	for i := 0; i < n; i++ {
		if !c.Mine("multi", i) {
			continue
		}
		r := c.Rand("c06m", i)
		pick := func() int {
			if c.Thorough() && r.IntN(3) == 0 {
				return []int{0, 3 + r.IntN(300), 3 + r.IntN(65533)}[r.IntN(3)]
			}
			return holds[r.IntN(len(holds)-1)] // 65535 only in the grid (a session lasts 18 virtual hours)
		}
		p := c06Params{Dir: allDirs[r.IntN(2)], LocalH: pick(), Seed: uint64(i)*69069 + c.Seed, Hook: hookMode(r), NilH: r.IntN(3) == 0}
		for k := 1 + r.IntN(3); k > 0; k-- {
			p.Sessions = append(p.Sessions, c06Sess{pick(), traffic[r.IntN(len(traffic))], locals[r.IntN(len(locals))]})
		}
		runCase(t, "multi", i, p, func(t *testing.T) rt.Result { return c06World(t, p) })
	}
}
