package fsm

import (
	"encoding/binary"
	"encoding/hex"
	"fmt"
	"net/netip"
	"testing"
	"time"

	"github.com/jwhited/corebgp"

	"verif/internal/gen"
	"verif/internal/hz"
	"verif/internal/ref"
	"verif/internal/rt"
	"verif/internal/wire"
)

// C02 end to end: an OPEN body is sent to a connection in OpenSent and the
// reaction on the wire and at the plugin is compared with ref.JudgeOpen.

type c02Params struct {
	Dir      string
	LocalAS  uint32
	RemoteAS uint32
	Body     string // hex
	Seed     uint64
	Hook     int
	// plugin returns this NOTIFICATION from OnOpenMessage (PlugData < 0: accept)
	PlugCode, PlugSub uint8
	PlugData          int
	// Glue: an UPDATE with a 64-byte body follows the OPEN in the same write and
	// OnOpenMessage takes 2 virtual microseconds (the reader runs ahead)
	Glue bool
}

func c02World(t *testing.T, p c02Params) rt.Result {
	body, _ := hex.DecodeString(p.Body)
	cfg := ref.OpenCfg{LocalID: localIDu, LocalAS: p.LocalAS, RemoteAS: p.RemoteAS}
	v := ref.JudgeOpen(body, cfg)
	r := rt.Get().Rand("c02w", int(p.Seed))
	var plugN *corebgp.Notification
	if p.PlugData >= 0 {
		plugN = &corebgp.Notification{Code: p.PlugCode, Subcode: p.PlugSub, Data: make([]byte, p.PlugData)}
		for i := range plugN.Data {
			plugN.Data[i] = byte(r.Uint32())
		}
		if p.PlugData == 0 && r.IntN(2) == 0 {
			plugN.Data = nil
		}
	}
	out := hz.Run(t, hz.Opts{Seed: p.Seed, HookMode: p.Hook}, func(w *hz.World) {
		ps := hz.StdPeer("10.0.1.1")
		ps.LocalAS, ps.RemoteAS = p.LocalAS, p.RemoteAS
		ps.Passive = p.Dir == "in"
		ps.Cfg.OnOpen = func(int, netip.Addr, []corebgp.Capability) *corebgp.Notification {
			if p.Glue {
				time.Sleep(2 * time.Microsecond)
			}
			return plugN
		}
		vr := pickVariety(r, p.Dir)
		vr.Slow = false
		if plugN != nil {
			vr.Reuse, vr.PriorIn = false, false // the plugin would refuse the setup session too
		}
		ps.Hold = vr.LocalHold
		s := bringV(w, ps, p.Dir, stOpenSent, vr)
		if s == nil {
			return
		}
		rc := s.rc
		_, opens0, ss0 := s.mon.Snapshot() // a reused fsm has been through one session already
		nOpens0, nSess0 := len(opens0), len(ss0)
		msg := wire.Msg(wire.TypeOpen, body)
		if p.Glue {
			eb := make([]byte, 64)
			for i := range eb {
				eb[i] = 0xEE
			}
			msg = append(msg, wire.Update(eb)...)
		}
		rc.W.Log.Add("tx", ps.Addr.String(), rc.ID, "OPEN(body "+p.Body+")", fmt.Sprintf("glue=%v", p.Glue))
		rc.SendCuts(msg, cuts(r, len(msg)), time.Nanosecond)
		w.Settle()
		got := rc.Msgs()[1:]
		eof, _ := rc.EOF()
		_, opens, _ := s.mon.Snapshot()
		opens = opens[nOpens0:]
		desc := fmt.Sprintf("[%s as %d->%d] OPEN body %s", p.Dir, p.LocalAS, p.RemoteAS, p.Body)
		if !v.Accept() {
			if len(opens) != 0 {
				w.Violate("%s: OnOpenMessage invoked for an unacceptable OPEN (faults: %v)", desc, v.Faults)
			}
			if len(got) != 1 || got[0].Type != wire.TypeNotification {
				w.Violate("%s: expected a single NOTIFICATION for faults %v, got [%s]", desc, v.Faults, typesOf(got))
			} else if n := got[0].Notif; !v.Allows(n.Code, n.Sub, n.Data) {
				w.Violate("%s: NOTIFICATION %v applies to none of the faults present: %v", desc, n, v.Faults)
			}
			if !eof {
				w.Violate("%s: connection not closed after rejecting the OPEN", desc)
			}
			rc.SendKeepalive()
			w.Settle()
			if _, _, ssx := s.mon.Snapshot(); s.mon.Up() || len(ssx) != nSess0 {
				w.Violate("%s: session reported Established after an unacceptable OPEN", desc)
			}
			return
		}
		// acceptable
		if len(opens) != 1 {
			w.Violate("%s: acceptable OPEN but OnOpenMessage invoked %d times", desc, len(opens))
			return
		}
		var idb [4]byte
		binary.BigEndian.PutUint32(idb[:], v.ID)
		if opens[0].RID != netip.AddrFrom4(idb) {
			w.Violate("%s: OnOpenMessage got router id %v, OPEN carries %v", desc, opens[0].RID, netip.AddrFrom4(idb))
		}
		var gotCaps []wire.Cap
		for _, c := range opens[0].Caps {
			gotCaps = append(gotCaps, wire.Cap{Code: c.Code, Value: c.Value})
		}
		if !wire.EqualCaps(gotCaps, v.Caps) {
			w.Violate("%s: OnOpenMessage capabilities %v differ from those carried %v", desc, gotCaps, v.Caps)
		}
		if plugN != nil {
			want := &wire.Notif{Code: plugN.Code, Sub: plugN.Subcode, Data: plugN.Data}
			if len(got) != 1 || got[0].Type != wire.TypeNotification || got[0].Notif.String() != want.String() {
				w.Violate("%s: plugin returned NOTIFICATION %v from OnOpenMessage, wire shows [%s]", desc, want, typesOf(got))
			}
			if !eof {
				w.Violate("%s: connection not closed after the plugin's NOTIFICATION", desc)
			}
			rc.SendKeepalive()
			w.Settle()
			if _, _, ssx := s.mon.Snapshot(); len(ssx) != nSess0 {
				w.Violate("%s: session Established although OnOpenMessage returned a NOTIFICATION", desc)
			}
			return
		}
		if p.Glue {
			// KEEPALIVE for the OPEN, then the UPDATE is an FSM error in OpenConfirm
			if len(got) != 2 || got[0].Type != wire.TypeKeepalive || got[1].Type != wire.TypeNotification || got[1].Notif.String() != (&wire.Notif{Code: 5, Sub: 2, Data: []byte{2}}).String() || !eof {
				w.Violate("%s followed at once by an UPDATE: expected KEEPALIVE then NOTIFICATION(5,2,02) and close, got [%s] eof=%v", desc, typesOf(got), eof)
			}
			return
		}
		if len(got) != 1 || got[0].Type != wire.TypeKeepalive || eof {
			w.Violate("%s: acceptable OPEN must be answered by exactly one KEEPALIVE, got [%s] eof=%v", desc, typesOf(got), eof)
			return
		}
		rc.SendKeepalive()
		w.Settle()
		if !s.mon.Up() {
			w.Violate("%s: session not Established after the remote's KEEPALIVE (plugin state %s)", desc, s.mon.State())
		}
		_, opens, _ = s.mon.Snapshot()
		if opens = opens[nOpens0:]; len(opens) != 1 {
			w.Violate("%s: OnOpenMessage invoked %d times for one connection", desc, len(opens))
		}
	})
	fs := ""
	for _, f := range v.Faults {
		fs += fmt.Sprintf("%d.%d ", f.Code, f.Sub)
	}
	return worldResult(out, true, "|"+fs+p.Dir, map[string]int{"sessions": 1})
}

func TestC02(t *testing.T) {
	c := rt.Get()
	n := c.N(20000, 400000)
	dlens := []int{-1, -1, -1, -1, -1, 0, 1, 2, 255, 4075}
	for i := 0; i < n; i++ {
		if !c.Mine("e2e", i) {
			continue
		}
		r := c.Rand("c02e2e", i)
		cf := gen.OpenCfgs[r.IntN(len(gen.OpenCfgs))]
		var body []byte
		if r.IntN(5) == 0 {
			// a lattice body (hand-written layouts) for this configuration
			lays := gen.ParamLayouts(cf[1])
			as2 := []uint16{uint16(cf[1]), wire.ASTrans, uint16(cf[1]) + 1}[r.IntN(3)]
			body = wire.OpenBodyRaw([]uint8{4, 4, 4, 3, 5}[r.IntN(5)], as2, []uint16{0, 1, 2, 3, 90}[r.IntN(5)],
				[]uint32{0x0a000101, localIDu, 0xE0000001, 0, 0xffffffff}[r.IntN(5)], -1, lays[r.IntN(len(lays))])
		} else {
			body = gen.RandOpenBody(r, localIDu, cf[0], cf[1])
		}
		p := c02Params{Dir: allDirs[r.IntN(2)], LocalAS: cf[0], RemoteAS: cf[1], Body: hex.EncodeToString(body),
			Seed: uint64(i)*15485863 + c.Seed, Hook: hookMode(r), PlugData: dlens[r.IntN(len(dlens))]}
		p.PlugCode, p.PlugSub = uint8(r.IntN(256)), uint8(r.IntN(256))
		p.Glue = r.IntN(4) == 0
		runCase(t, "e2e", i, p, func(t *testing.T) rt.Result { return c02World(t, p) })
	}
}
