package fsm

import (
	"fmt"
	"testing"
	"time"

	"verif/internal/hz"
	"verif/internal/memnet"
	"verif/internal/rt"
	"verif/internal/wire"
)

// C09: state-dependent message handling (RFC 4271 §8.2.2, RFC 6608).

var fsmErrSub = map[string]uint8{stOpenSent: 1, stOpenConfirm: 2, stEstablished: 3}

type c09Params struct {
	Dir, State, Stim string
	Code, Sub        uint8
	DataLen          int
	Seed             uint64
	Hook             int
	Active           bool // inbound cell on a non-passive peer (outbound FSM cycling in the background)
	// Reuse (outbound only): the cell is exercised on the second connection of the
	// same outbound FSM object, after a first session that ended by a TCP close
	Reuse bool
	// Trailer: bytes that cannot be decoded as a message follow the stimulus in
	// the same write (only for stimuli that end the connection)
	Trailer string // "" | type5 | badopen | shortnotif | badlen | badmarker
	// Pipe: the stimulus is glued behind the message that moves the connection into
	// the state (so it is read while the FSM is still busy with that message) and the
	// remote closes at once afterwards
	Pipe bool
}

func c09World(t *testing.T, p c09Params) rt.Result {
	r := rt.Get().Rand("c09w", int(p.Seed))
	out := hz.Run(t, hz.Opts{Seed: p.Seed, HookMode: p.Hook, WriteYields: 3, EOFWithData: mix(p.Seed)%3 == 0}, func(w *hz.World) {
		ps := hz.StdPeer("10.0.1.1")
		ps.Cfg.ProbeWriteInClose = true
		v := pickVariety(r, p.Dir)
		if r.IntN(3) == 0 && p.Stim != "FIN" && p.Stim != "RST" { // (those cells count corebgp's write attempts)
			v = v.withStorm(1 + r.IntN(3))
		}
		defer v.Kick()
		v.apply(&ps, p.Seed)
		if p.Dir == "in" && !p.Active {
			ps.Passive = true
		}
		target := p.State
		pipe := p.Pipe && p.State != stOpenSent && p.Trailer == "" && (p.Stim == "OPEN" || p.Stim == "UPDATE" || p.Stim == "KEEPALIVE" || p.Stim == "NOTIFICATION") &&
			!((p.State == stOpenConfirm && p.Stim == "KEEPALIVE") || (p.State == stEstablished && (p.Stim == "KEEPALIVE" || p.Stim == "UPDATE")))
		if pipe {
			p.State = map[string]string{stOpenConfirm: stOpenSent, stEstablished: stOpenConfirm}[target]
		}
		var s *sess
		if p.Reuse && p.Dir == "out" {
			s = bringReused(w, ps, p.State, v.RemoteHold)
		} else {
			s = bring(w, ps, p.Dir, p.State, v.RemoteHold)
		}
		if s == nil {
			return
		}
		rc := s.rc
		before := len(rc.Msgs())
		_, _, ss := s.mon.Snapshot()
		sessBefore := len(ss)
		var pipePrefix []byte
		if pipe {
			if target == stOpenConfirm {
				pipePrefix = wire.Msg(wire.TypeOpen, rc.StdOpen(ps.RemoteAS, v.RemoteHold, remoteIDu).Body())
			} else {
				pipePrefix = wire.Keepalive()
				sessBefore++ // the glued KEEPALIVE establishes the session first
			}
			p.State = target
		}
		wasEst := p.State == stEstablished

		var stim []byte
		typ := uint8(0)
		switch p.Stim {
		case "OPEN":
			o := rc.StdOpen(ps.RemoteAS, 90, remoteIDu)
			if p.State != stOpenSent {
				// outside OpenSent an OPEN is unexpected whatever it proposes: also one that
				// would be refused in OpenSent is answered with the FSM error, not judged
				switch r.IntN(8) {
				case 0:
					o.Hold = uint16(1 + r.IntN(2))
				case 1:
					o.Version = 3
				case 2:
					o.ID = 0
				case 3:
					o.AS = 64999
				case 4:
					o.Hold = 0
				}
			}
			stim, typ = wire.Msg(wire.TypeOpen, o.Body()), 1
		case "UPDATE":
			stim, typ = wire.Update([]byte{0, 0, 0, 0}), 2
		case "KEEPALIVE":
			stim, typ = wire.Keepalive(), 4
		case "NOTIFICATION":
			data := make([]byte, p.DataLen)
			for i := range data {
				data[i] = byte(r.Uint32())
			}
			stim, typ = wire.Notification(p.Code, p.Sub, data), 3
		}
		legalStim := (p.State == stOpenSent && p.Stim == "OPEN") ||
			(p.State == stOpenConfirm && p.Stim == "KEEPALIVE") ||
			(p.State == stEstablished && (p.Stim == "KEEPALIVE" || p.Stim == "UPDATE"))
		if stim != nil && !legalStim {
			switch p.Trailer {
			case "type5":
				stim = append(stim, wire.Msg(5, []byte{0, 1, 0, 1})...)
			case "badopen":
				stim = append(stim, wire.Msg(wire.TypeOpen, []byte{4, 0, 1})...)
			case "shortnotif":
				stim = append(stim, wire.Msg(wire.TypeNotification, []byte{6})...)
			case "badlen": // a header whose length field is out of range (one error path of the reader per trailer)
				stim = append(stim, wire.RawHeader(nil, []uint16{18, 0, 4097, 65535}[r.IntN(4)], 4)...)
			case "badmarker":
				stim = append(stim, wire.RawHeader(make([]byte, 16), 19, 4)...)
			}
		}
		v.Kick()
		writesBefore := rc.Pair.Writes(0)
		switch p.Stim {
		case "FIN":
			rc.Pair.Configure(func(pp *memnet.Pair) { pp.WriteAfterPeerCloseOK = true })
			rc.Close()
		case "RST":
			rc.Reset()
		default:
			rc.W.Log.Add("tx", ps.Addr.String(), rc.ID, p.Stim, fmt.Sprintf("pipelined=%v", pipe))
			if pipe {
				rc.Pair.Configure(func(pp *memnet.Pair) { pp.WriteAfterPeerCloseOK = true })
				rc.Send(append(pipePrefix, stim...))
				rc.Close()
			} else {
				rc.SendCuts(stim, cuts(r, len(stim)), time.Nanosecond)
			}
		}
		w.Settle()
		for i := 0; i < 10 && pipe && rc.Pair.Closed(0) == 0; i++ {
			w.Settle() // slow callbacks
		}

		got := sansEcho(rc.Msgs()[before:])
		eof, _ := rc.EOF()
		if pipe {
			eof = rc.Pair.Closed(0) > 0
			if target == stOpenConfirm { // the reply to the glued OPEN comes first
				if len(got) == 0 || got[0].Type != wire.TypeKeepalive {
					w.Violate("[%s/%s/%s pipelined] the OPEN glued in front was not answered by KEEPALIVE: %s", p.Dir, p.State, p.Stim, typesOf(got))
				} else {
					got = got[1:]
				}
			}
		}
		legal := (p.State == stOpenSent && p.Stim == "OPEN") ||
			(p.State == stOpenConfirm && p.Stim == "KEEPALIVE") ||
			(p.State == stEstablished && (p.Stim == "KEEPALIVE" || p.Stim == "UPDATE"))
		cell := fmt.Sprintf("[%s/%s/%s]", p.Dir, p.State, p.Stim)
		switch {
		case p.Stim == "FIN" || p.Stim == "RST":
			if n := rc.Pair.Writes(0) - writesBefore; n != 0 {
				w.Violate("%s corebgp attempted %d write(s) on a connection the remote had closed/reset (must end silently)", cell, n)
			}
			if rc.Pair.Closed(0) == 0 {
				w.Violate("%s corebgp did not close its end after the remote's %s", cell, p.Stim)
			}
		case p.Stim == "NOTIFICATION":
			if len(got) != 0 {
				w.Violate("%s corebgp replied to a received NOTIFICATION(%d,%d,len %d) with %s", cell, p.Code, p.Sub, p.DataLen, typesOf(got))
			}
			if !eof {
				w.Violate("%s connection not closed after a received NOTIFICATION(%d,%d)", cell, p.Code, p.Sub)
			}
		case legal:
			if eof {
				w.Violate("%s connection closed on a message that is legal progress in this state; got %s", cell, typesOf(got))
			}
			if len(notifsOf(got)) > 0 {
				w.Violate("%s NOTIFICATION %v sent for a message that is legal in this state", cell, notifsOf(got)[0])
			}
			switch {
			case p.State == stOpenSent:
				if len(got) != 1 || got[0].Type != wire.TypeKeepalive {
					w.Violate("%s expected a KEEPALIVE in reply to OPEN, got %s", cell, typesOf(got))
				}
			case p.State == stOpenConfirm:
				if !s.mon.Up() {
					w.Violate("%s KEEPALIVE in OpenConfirm did not establish the session", cell)
				}
			case p.Stim == "UPDATE":
				if cur := s.mon.Cur(); cur == nil || len(cur.Updates) != 1 {
					w.Violate("%s UPDATE in Established not delivered to the handler exactly once", cell)
				}
			}
			if p.State != stOpenSent {
				wasEst = true
			}
		default:
			want := &wire.Notif{Code: 5, Sub: fsmErrSub[p.State], Data: []byte{typ}}
			if len(got) != 1 || got[0].Type != wire.TypeNotification || got[0].Notif.String() != want.String() {
				w.Violate("%s expected exactly NOTIFICATION%v then close, got %s", cell, want, typesOf(got))
			}
			if !eof {
				w.Violate("%s connection not closed after the FSM-error NOTIFICATION", cell)
			}
		}
		// OnClose accounting at this point for sessions that have ended
		_, _, ss = s.mon.Snapshot()
		if !legal {
			wantSess := 0
			if wasEst {
				wantSess = 1
			}
			if len(ss) != sessBefore && p.State != stEstablished {
				w.Violate("%s OnEstablished fired although the session never reached Established", cell)
			}
			if wantSess == 1 && (len(ss) != sessBefore || ss[len(ss)-1].CloseExit < 0) {
				w.Violate("%s session was Established but OnClose has not fired exactly once after the connection ended (sessions=%d)", cell, len(ss))
			}
			if wantSess == 1 && len(ss) > 0 && ss[len(ss)-1].WriteInCloseDone && ss[len(ss)-1].WriteInCloseErr == nil {
				w.Violate("%s WriteUpdate called from inside OnClose returned nil", cell)
			}
		}
		// nothing more may arrive on the dead connection later on
		if !legal {
			n := len(rc.Msgs())
			time.Sleep(3 * time.Second)
			if m := rc.Msgs(); len(m) != n {
				w.Violate("%s corebgp sent %s after the connection had ended", cell, typesOf(m[n:]))
			}
		}
	})
	return worldResult(out, true, "", map[string]int{"cells": 1})
}

func TestC09(t *testing.T) {
	c := rt.Get()
	stims := []string{"OPEN", "UPDATE", "KEEPALIVE", "FIN", "RST"}
	seeds := c.N(120, 1500)
	idx := 0
	// the full (direction, state, stimulus) table, several segmentations / delays per cell
	for _, dir := range allDirs {
		for _, st := range allStates {
			for _, stim := range stims {
				for k := 0; k < seeds; k++ {
					p := c09Params{Dir: dir, State: st, Stim: stim, Seed: uint64(idx)*7919 + c.Seed, Hook: hz.HookVSleep, Active: k%2 == 1}
					if k%5 == 4 {
						p.Hook = hz.HookOff
					}
					p.Reuse = dir == "out" && k%3 == 0
					p.Trailer = []string{"", "", "type5", "badopen", "shortnotif", "badlen", "badmarker"}[(k+k/5)%7]
					p.Pipe = k%4 == 1
					i := idx
					runCase(t, "table", i, p, func(t *testing.T) rt.Result { return c09World(t, p) })
					idx++
				}
			}
		}
	}
	// received NOTIFICATIONs: all (code, subcode) pairs in the thorough tier
	dlens := []int{0, 1, 2, 255, 4075}
	n := c.N(16000, 65536*4)
	for i := 0; i < n; i++ {
		if !c.Mine("notif", i) {
			continue
		}
		r := c.Rand("notif", i)
		p := c09Params{Stim: "NOTIFICATION", Dir: allDirs[i%2], State: allStates[(i/2)%3], Seed: uint64(i)*104729 + c.Seed, Hook: hz.HookVSleep}
		if c.Thorough() {
			p.Code, p.Sub = uint8(i>>8), uint8(i)
			p.State = allStates[r.IntN(3)]
			p.Dir = allDirs[(i>>16)%2]
		} else if i < 256*7 {
			// every subcode of codes 0..6
			p.Code, p.Sub = uint8(i>>8), uint8(i)
		} else {
			p.Code, p.Sub = uint8(r.IntN(256)), uint8(r.IntN(256))
		}
		p.DataLen = dlens[r.IntN(len(dlens))]
		if r.IntN(3) == 0 {
			p.DataLen = r.IntN(4076)
		}
		p.Active = r.IntN(2) == 0
		p.Reuse = p.Dir == "out" && r.IntN(3) == 0
		p.Trailer = []string{"", "", "type5", "badopen", "shortnotif", "badlen", "badmarker"}[r.IntN(7)]
		p.Pipe = r.IntN(4) == 0
		runCase(t, "notif", i, p, func(t *testing.T) rt.Result { return c09World(t, p) })
	}
}
