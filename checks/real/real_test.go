// Package real is Engine R: the same kinds of monitors as the virtual-time
// engine, but corebgp runs on real loopback TCP sockets in real time with the
// real dialer and listener and no dial hook. Steps wait for positive events
// with generous timeouts; a timeout is INCONCLUSIVE, never a violation;
// absence claims are left to the virtual engine where they are exact.
package real

import (
	"errors"
	"fmt"
	"io"
	"net"
	"net/netip"
	"os"
	"runtime"
	"strings"
	"sync"
	"syscall"
	"testing"
	"time"

	"github.com/jwhited/corebgp"

	"verif/internal/rt"
	"verif/internal/wire"
)

const (
	lAS = 65001
	rAS = 65002
)

// ---------------------------------------------------------------- remote end

type rconn struct {
	c      net.Conn
	mu     sync.Mutex
	cond   *sync.Cond
	p      wire.Parser
	msgs   []wire.Message
	at     []time.Time
	eof    bool
	rderr  error
	closed bool
	paused bool // the reader stops draining the socket (back-pressure)
}

func (r *rconn) pause(on bool) {
	r.mu.Lock()
	r.paused = on
	r.cond.Broadcast()
	r.mu.Unlock()
}

func newRconn(c net.Conn) *rconn {
	r := &rconn{c: c}
	r.cond = sync.NewCond(&r.mu)
	if tc, ok := c.(*net.TCPConn); ok {
		tc.SetNoDelay(true)
	}
	go func() {
		buf := make([]byte, 8192)
		for {
			r.mu.Lock()
			for r.paused {
				r.cond.Wait()
			}
			r.mu.Unlock()
			n, err := c.Read(buf)
			r.mu.Lock()
			if n > 0 {
				for _, m := range r.p.Feed(buf[:n]) {
					r.msgs = append(r.msgs, m)
					r.at = append(r.at, time.Now())
				}
			}
			if err != nil {
				r.eof, r.rderr = true, err
				r.cond.Broadcast()
				r.mu.Unlock()
				return
			}
			r.cond.Broadcast()
			r.mu.Unlock()
		}
	}()
	return r
}

func (r *rconn) wait(d time.Duration, pred func() bool) bool {
	deadline := time.Now().Add(d)
	t := time.AfterFunc(d, func() { r.mu.Lock(); r.cond.Broadcast(); r.mu.Unlock() })
	defer t.Stop()
	r.mu.Lock()
	defer r.mu.Unlock()
	for !pred() {
		if time.Now().After(deadline) {
			return false
		}
		r.cond.Wait()
	}
	return true
}

func (r *rconn) waitMsgs(n int, d time.Duration) bool {
	return r.wait(d, func() bool { return len(r.msgs) >= n || r.eof }) && func() bool { r.mu.Lock(); defer r.mu.Unlock(); return len(r.msgs) >= n }()
}
func (r *rconn) waitEOF(d time.Duration) bool { return r.wait(d, func() bool { return r.eof }) }
func (r *rconn) snapshot() ([]wire.Message, bool, error) {
	r.mu.Lock()
	defer r.mu.Unlock()
	return append([]wire.Message(nil), r.msgs...), r.eof, r.p.Err
}
func (r *rconn) send(b []byte) { r.c.Write(b) }
func (r *rconn) close()        { r.mu.Lock(); r.closed = true; r.mu.Unlock(); r.c.Close() }
func (r *rconn) reset() {
	if tc, ok := r.c.(*net.TCPConn); ok {
		tc.SetLinger(0)
	}
	r.close()
}
func (r *rconn) open(id uint32, hold uint16) {
	r.send(wire.Msg(wire.TypeOpen, wire.StdOpen(rAS, hold, id).Body()))
}
func (r *rconn) handshake(id uint32, hold uint16) bool {
	if !r.waitMsgs(1, 5*time.Second) {
		return false
	}
	r.open(id, hold)
	if !r.waitMsgs(2, 5*time.Second) {
		return false
	}
	r.send(wire.Keepalive())
	return true
}

func types(ms []wire.Message) string {
	var s []string
	for _, m := range ms {
		s = append(s, m.String())
	}
	return strings.Join(s, " ")
}

// ---------------------------------------------------------------- plugin

type plug struct {
	mu      sync.Mutex
	cond    *sync.Cond
	est     int
	closed  int
	updates [][]byte
	writer  corebgp.UpdateMessageWriter
	viol    []string
	up      bool
}

func newPlug() *plug { p := &plug{}; p.cond = sync.NewCond(&p.mu); return p }

func (p *plug) GetCapabilities(corebgp.PeerConfig) []corebgp.Capability { return nil }
func (p *plug) OnOpenMessage(corebgp.PeerConfig, netip.Addr, []corebgp.Capability) *corebgp.Notification {
	return nil
}
func (p *plug) OnEstablished(_ corebgp.PeerConfig, w corebgp.UpdateMessageWriter) corebgp.UpdateMessageHandler {
	p.mu.Lock()
	if p.up {
		p.viol = append(p.viol, "OnEstablished while a session is up")
	}
	p.up = true
	p.est++
	p.writer = w
	p.cond.Broadcast()
	p.mu.Unlock()
	return func(_ corebgp.PeerConfig, b []byte) *corebgp.Notification {
		p.mu.Lock()
		if !p.up {
			p.viol = append(p.viol, "handler outside a session")
		}
		p.updates = append(p.updates, append([]byte{}, b...))
		p.cond.Broadcast()
		p.mu.Unlock()
		return nil
	}
}
func (p *plug) OnClose(corebgp.PeerConfig) {
	p.mu.Lock()
	if !p.up {
		p.viol = append(p.viol, "OnClose without a session")
	}
	p.up = false
	p.closed++
	p.cond.Broadcast()
	p.mu.Unlock()
}
func (p *plug) wait(d time.Duration, pred func() bool) bool {
	deadline := time.Now().Add(d)
	t := time.AfterFunc(d, func() { p.mu.Lock(); p.cond.Broadcast(); p.mu.Unlock() })
	defer t.Stop()
	p.mu.Lock()
	defer p.mu.Unlock()
	for !pred() {
		if time.Now().After(deadline) {
			return false
		}
		p.cond.Wait()
	}
	return true
}

// ---------------------------------------------------------------- world

type world struct {
	srv      *corebgp.Server
	lis      net.Listener
	serveErr chan error
	viol     []string
	incon    []string
	mu       sync.Mutex
}

func (w *world) violate(f string, a ...any) {
	w.mu.Lock()
	w.viol = append(w.viol, fmt.Sprintf(f, a...))
	w.mu.Unlock()
}
func (w *world) inconclusive(f string, a ...any) {
	w.mu.Lock()
	w.incon = append(w.incon, fmt.Sprintf(f, a...))
	w.mu.Unlock()
}

func newWorld(listen string) (*world, error) {
	srv, err := corebgp.NewServer(netip.MustParseAddr("10.0.0.1"))
	if err != nil {
		return nil, err
	}
	w := &world{srv: srv, serveErr: make(chan error, 1)}
	if listen != "" {
		l, err := net.Listen("tcp", listen)
		if err != nil {
			return nil, err
		}
		w.lis = l
	}
	return w, nil
}

func (w *world) serve() {
	var ls []net.Listener
	if w.lis != nil {
		ls = []net.Listener{w.lis}
	}
	go func() { w.serveErr <- w.srv.Serve(ls) }()
}

func (w *world) port() int { return w.lis.Addr().(*net.TCPAddr).Port }

// close closes the server and checks the bounded-time / Serve-return clauses.
func (w *world) close() {
	done := make(chan struct{})
	go func() { w.srv.Close(); close(done) }()
	select {
	case <-done:
	case <-time.After(10 * time.Second):
		w.violate("Server.Close did not return within 10 s of real time")
		return
	}
	select {
	case err := <-w.serveErr:
		if err != corebgp.ErrServerClosed {
			w.violate("Serve returned %v after Close", err)
		}
	case <-time.After(5 * time.Second):
		w.violate("Serve did not return after Close")
	}
	if w.lis != nil {
		// when Close wins the race against Serve, Serve returns ErrServerClosed
		// without ever owning the listener: it stays the caller's to close
		w.lis.Close()
	}
	// no goroutine started by corebgp survives Close. A goroutine that has done its
	// work may still be returning, so the verdict needs one that is still there (and
	// still the same one) two seconds later.
	var first map[string]string
	for i := 0; i < 100; i++ {
		cur := corebgpGoroutines()
		if len(cur) == 0 {
			return
		}
		if first == nil {
			first = cur
		}
		time.Sleep(20 * time.Millisecond)
	}
	for id, st := range corebgpGoroutines() {
		if _, ok := first[id]; ok {
			w.violate("goroutine %s started by corebgp still exists 2 s after Server.Close returned:\n%s", id, st)
			return
		}
	}
}

// corebgpGoroutines returns the goroutines whose creator is a corebgp function,
// keyed by goroutine id.
func corebgpGoroutines() map[string]string {
	buf := make([]byte, 1<<20)
	buf = buf[:runtime.Stack(buf, true)]
	out := map[string]string{}
	for _, g := range strings.Split(string(buf), "\n\n") {
		i := strings.LastIndex(g, "created by ")
		if i < 0 || !strings.HasPrefix(g[i+len("created by "):], "github.com/jwhited/corebgp.") {
			continue
		}
		id := g
		if j := strings.Index(g, " ["); j > 0 {
			id = g[:j]
		}
		if len(g) > 1500 {
			g = g[:1500]
		}
		out[id] = g
	}
	return out
}

func (w *world) result(sig string, nontrivial bool, events map[string]int) rt.Result {
	w.mu.Lock()
	defer w.mu.Unlock()
	res := rt.Result{Verdict: "held", Sig: sig, Nontrivial: nontrivial, Events: events}
	if len(w.viol) > 0 {
		res.Verdict, res.Why, res.Nontrivial = "violated", "[real TCP] "+strings.Join(w.viol, "\n"), true
	} else if len(w.incon) > 0 {
		res.Verdict, res.Why = "inconclusive", strings.Join(w.incon, "\n")
	}
	return res
}

// dialFrom connects from a chosen loopback source address.
func dialFrom(src string, dst string) (net.Conn, error) {
	d := net.Dialer{LocalAddr: &net.TCPAddr{IP: net.ParseIP(src)}, Timeout: 3 * time.Second}
	return d.Dial("tcp", dst)
}

var familyViolations = map[string]int{}

func runCase(t *testing.T, family string, idx int, params any, fn func() rt.Result) {
	c := rt.Get()
	if !c.Mine(family, idx) {
		return
	}
	if familyViolations[family] >= 3 {
		return // real-time scenarios are slow when they fail: three witnesses per family are enough
	}
	c.Start(family, idx, params)
	res := fn()
	if res.Verdict == "violated" {
		familyViolations[family]++
	}
	if res.Sample == nil {
		res.Sample = params
	}
	c.End(family, idx, res)
}

func socketFDs() int {
	ents, err := os.ReadDir("/proc/self/fd")
	if err != nil {
		return -1
	}
	n := 0
	for _, e := range ents {
		if l, err := os.Readlink("/proc/self/fd/" + e.Name()); err == nil && strings.HasPrefix(l, "socket:") {
			n++
		}
	}
	return n
}

// ---------------------------------------------------------------- scenarios

// session: handshake in one direction, UPDATEs both ways, Close (C01 C03 C04 C10 C14).
func sessionCase(dir string, k int) rt.Result { return sessionCaseAF(dir, k, false) }

// sessionCaseAF: v6 runs the same session between ::1 and ::1 (the only IPv6
// loopback address), always with the local address configured.
func sessionCaseAF(dir string, k int, v6 bool) rt.Result {
	peerIP := fmt.Sprintf("127.0.1.%d", 10+k%200)
	lhost := "127.0.0.1"
	if v6 {
		peerIP, lhost = "::1", "::1"
	}
	w, err := newWorld(net.JoinHostPort(lhost, "0"))
	if err != nil {
		return rt.Result{Verdict: "inconclusive", Why: err.Error()}
	}
	pl := newPlug()
	var rl net.Listener
	opts := []corebgp.PeerOption{corebgp.WithHoldTime(9), corebgp.WithIdleHoldTime(50 * time.Millisecond)}
	if dir == "in" {
		opts = append(opts, corebgp.WithPassive())
	} else {
		rl, err = net.Listen("tcp", net.JoinHostPort(peerIP, "0"))
		if err != nil {
			return rt.Result{Verdict: "inconclusive", Why: err.Error()}
		}
		defer rl.Close()
		opts = append(opts, corebgp.WithPort(rl.Addr().(*net.TCPAddr).Port))
	}
	// a third of the sessions run with a configured local address: inbound it is the
	// address the remote connects to, outbound the dial is bound to it
	if k%3 == 1 || v6 {
		la := lhost
		if dir == "out" && !v6 {
			la = fmt.Sprintf("127.0.0.%d", 2+k%7)
		}
		opts = append(opts, corebgp.WithLocalAddress(netip.MustParseAddr(la)))
	}
	if err := w.srv.AddPeer(corebgp.PeerConfig{RemoteAddress: netip.MustParseAddr(peerIP), LocalAS: lAS, RemoteAS: rAS}, pl, opts...); err != nil {
		w.violate("AddPeer: %v", err)
		return w.result("", true, nil)
	}
	w.serve()
	var c net.Conn
	if dir == "in" {
		c, err = dialFrom(peerIP, net.JoinHostPort(lhost, fmt.Sprint(w.port())))
	} else {
		rl.(*net.TCPListener).SetDeadline(time.Now().Add(5 * time.Second))
		c, err = rl.Accept()
	}
	if err != nil && dir == "out" {
		// Bounded liveness in real time needs a control: wait 15 s more (400 x the
		// idle-hold time in total), then connect to the same listener from the test. Only
		// if that succeeds at once was the listener reachable all along while corebgp,
		// configured to retry every 50 ms, never got through.
		rl.(*net.TCPListener).SetDeadline(time.Now().Add(15 * time.Second))
		if c, err = rl.Accept(); err != nil {
			t0 := time.Now()
			cc, cerr := net.DialTimeout("tcp", rl.Addr().String(), 2*time.Second)
			if cerr == nil {
				cc.Close()
				w.violate("no outbound connection from corebgp within 20 s (idle-hold time 50 ms) to %s, while a control connection to the same listener succeeded in %v", rl.Addr(), time.Since(t0))
				w.close()
				return w.result("session-"+dir, true, nil)
			}
		}
	}
	if err != nil {
		w.inconclusive("no connection: %v", err)
		w.close()
		return w.result("", false, nil)
	}
	rc := newRconn(c)
	hs := rc.handshake(0x7f000a00+uint32(k), 9)
	// an outbound connection that corebgp closes without having sent a byte is followed
	// by its next attempt; three in a row are a verdict (nothing in this scenario makes
	// corebgp give up a connection it has just made)
	for mute := 1; !hs && dir == "out"; mute++ {
		if ms, eof, _ := rc.snapshot(); !eof || len(ms) != 0 {
			break
		}
		if mute == 3 {
			w.violate("corebgp connected to %s %d times and closed each connection without sending an OPEN (idle-hold time 50 ms, remote accepting)", rl.Addr(), mute)
			w.close()
			return w.result("session-"+dir, true, nil)
		}
		rl.(*net.TCPListener).SetDeadline(time.Now().Add(5 * time.Second))
		c, err = rl.Accept()
		if err != nil {
			break
		}
		rc = newRconn(c)
		hs = rc.handshake(0x7f000a00+uint32(k), 9)
	}
	if !hs || !pl.wait(5*time.Second, func() bool { return pl.est == 1 }) {
		ms, eof, perr := rc.snapshot()
		w.inconclusive("handshake did not complete in time: %s eof=%v perr=%v", types(ms), eof, perr)
		w.close()
		return w.result("", false, nil)
	}
	ms, _, _ := rc.snapshot()
	if o := ms[0].Open; ms[0].Type != wire.TypeOpen || o.Version != 4 || o.AS != lAS || o.Hold != 9 || o.ID != 0x0a000001 {
		w.violate("OPEN on real TCP: %s", ms[0])
	}
	// UPDATEs towards corebgp, 1-byte writes for the first one
	var sent [][]byte
	for i := 0; i < 20; i++ {
		b := make([]byte, 4+i*37%900)
		b[0], b[1] = byte(i), 0xAB
		sent = append(sent, b)
		m := wire.Update(b)
		if i == 0 {
			for _, x := range m {
				rc.send([]byte{x})
			}
		} else {
			rc.send(m)
		}
	}
	if !pl.wait(5*time.Second, func() bool { return len(pl.updates) >= len(sent) }) {
		w.inconclusive("only %d of %d UPDATEs delivered in 5 s", len(pl.updates), len(sent))
	} else {
		pl.mu.Lock()
		for i := range sent {
			if string(pl.updates[i]) != string(sent[i]) {
				w.violate("UPDATE %d delivered altered/out of order on real TCP", i)
				break
			}
		}
		pl.mu.Unlock()
	}
	// concurrent writers from corebgp
	var wg sync.WaitGroup
	for g := 0; g < 4; g++ {
		wg.Add(1)
		go func(g int) {
			defer wg.Done()
			for i := 0; i < 50; i++ {
				b := make([]byte, 8+(g*50+i)%3000)
				b[0], b[1], b[2] = 0xC4, byte(g), byte(i)
				pl.writer.WriteUpdate(b)
			}
		}(g)
	}
	wg.Wait()
	rc.wait(5*time.Second, func() bool {
		n := 0
		for _, m := range rc.msgs {
			if m.Type == wire.TypeUpdate {
				n++
			}
		}
		return n >= 200
	})
	before := socketFDs()
	_ = before
	w.close()
	if !rc.waitEOF(5 * time.Second) {
		w.inconclusive("no EOF within 5 s after Close")
	}
	ms, _, perr := rc.snapshot()
	if perr != nil {
		w.violate("bytes written by corebgp on real TCP are not a well-formed message stream: %v", perr)
	}
	seen := map[[2]byte]bool{}
	last := map[byte]int{}
	nupd := 0
	cease := false
	for _, m := range ms {
		if m.Type == wire.TypeNotification && m.Notif.Code == 6 {
			cease = true
		}
		if m.Type != wire.TypeUpdate || len(m.Body) < 3 || m.Body[0] != 0xC4 {
			continue
		}
		nupd++
		k := [2]byte{m.Body[1], m.Body[2]}
		if seen[k] {
			w.violate("UPDATE writer %d seq %d appears twice on the wire", k[0], k[1])
		}
		seen[k] = true
		if l, ok := last[k[0]]; ok && int(k[1]) <= l {
			w.violate("per-writer order broken on real TCP: writer %d seq %d after %d", k[0], k[1], l)
		}
		last[k[0]] = int(k[1])
	}
	if nupd != 200 {
		w.inconclusive("%d of 200 written UPDATEs seen by the remote", nupd)
	}
	if !cease && rc.eof {
		w.violate("Established session closed by Server.Close without a Cease NOTIFICATION on real TCP: %s", types(ms[max(0, len(ms)-3):]))
	}
	if !pl.wait(time.Second, func() bool { return pl.closed == 1 }) {
		w.violate("OnClose not delivered by the time Close returned")
	}
	pl.mu.Lock()
	for _, v := range pl.viol {
		w.violate("plugin automaton: %s", v)
	}
	pl.mu.Unlock()
	return w.result("session-"+dir, true, map[string]int{"real_sessions": 1, "updates_in": len(sent), "updates_out": nupd})
}

// collision on real TCP (C07, ordered).
func collisionCase(localDominant bool, first string, k int) rt.Result {
	peerIP := fmt.Sprintf("127.0.2.%d", 10+k%200)
	w, err := newWorld("127.0.0.1:0")
	if err != nil {
		return rt.Result{Verdict: "inconclusive", Why: err.Error()}
	}
	pl := newPlug()
	rl, err := net.Listen("tcp", peerIP+":0")
	if err != nil {
		return rt.Result{Verdict: "inconclusive", Why: err.Error()}
	}
	defer rl.Close()
	w.srv.AddPeer(corebgp.PeerConfig{RemoteAddress: netip.MustParseAddr(peerIP), LocalAS: lAS, RemoteAS: rAS}, pl,
		corebgp.WithPort(rl.Addr().(*net.TCPAddr).Port), corebgp.WithIdleHoldTime(time.Second))
	w.serve()
	rid := uint32(0x0a000101) // > local 10.0.0.1
	if localDominant {
		rid = 0x0a000000
	}
	rl.(*net.TCPListener).SetDeadline(time.Now().Add(5 * time.Second))
	oc0, err := rl.Accept()
	if err != nil {
		w.inconclusive("no outbound connection: %v", err)
		w.close()
		return w.result("", false, nil)
	}
	ic0, err := dialFrom(peerIP, fmt.Sprintf("127.0.0.1:%d", w.port()))
	if err != nil {
		w.inconclusive("inbound dial: %v", err)
		w.close()
		return w.result("", false, nil)
	}
	oc, ic := newRconn(oc0), newRconn(ic0)
	if !oc.waitMsgs(1, 5*time.Second) || !ic.waitMsgs(1, 5*time.Second) {
		w.inconclusive("both connections did not reach OpenSent")
		w.close()
		return w.result("", false, nil)
	}
	conns := map[string]*rconn{"out": oc, "in": ic}
	a, b := conns[first], conns[map[string]string{"out": "in", "in": "out"}[first]]
	a.open(rid, 90)
	if !a.waitMsgs(2, 5*time.Second) {
		w.inconclusive("first OPEN not answered")
		w.close()
		return w.result("", false, nil)
	}
	time.Sleep(100 * time.Millisecond) // let the first connection's OpenConfirm be approved
	b.open(rid, 90)
	want := "in"
	if localDominant {
		want = "out"
	}
	loser := conns[map[string]string{"out": "in", "in": "out"}[want]]
	if !loser.waitEOF(5 * time.Second) {
		_, eofW, _ := conns[want].snapshot()
		if eofW {
			w.violate("collision on real TCP: the %s connection was closed, RFC 4271 6.8 keeps it (local dominant=%v, first OPEN on %s)", want, localDominant, first)
		} else {
			w.inconclusive("no connection closed within 5 s")
		}
		w.close()
		return w.result("collision", true, nil)
	}
	lm, _, _ := loser.snapshot()
	if n := lm[len(lm)-1]; n.Type != wire.TypeNotification || n.Notif.Code != 6 {
		w.violate("collision loser closed without Cease on real TCP: %s", types(lm))
	}
	sv := conns[want]
	sv.send(wire.Keepalive())
	if !pl.wait(5*time.Second, func() bool { return pl.est == 1 }) {
		_, eofW, _ := sv.snapshot()
		if eofW {
			w.violate("collision on real TCP: both connections closed")
		} else {
			w.inconclusive("survivor did not establish within 5 s")
		}
	}
	w.close()
	return w.result(fmt.Sprintf("collision-%v-%s", localDominant, first), true, map[string]int{"real_collisions": 1})
}

// reaction: one cell of the C09 table / one faulty header (C08) on real TCP.
func reactionCase(dir, state, stim string, k int) rt.Result {
	peerIP := fmt.Sprintf("127.0.3.%d", 10+k%200)
	w, err := newWorld("127.0.0.1:0")
	if err != nil {
		return rt.Result{Verdict: "inconclusive", Why: err.Error()}
	}
	pl := newPlug()
	opts := []corebgp.PeerOption{corebgp.WithIdleHoldTime(100 * time.Millisecond)}
	var rl net.Listener
	if dir == "in" {
		opts = append(opts, corebgp.WithPassive())
	} else {
		rl, err = net.Listen("tcp", peerIP+":0")
		if err != nil {
			return rt.Result{Verdict: "inconclusive", Why: err.Error()}
		}
		defer rl.Close()
		opts = append(opts, corebgp.WithPort(rl.Addr().(*net.TCPAddr).Port))
	}
	w.srv.AddPeer(corebgp.PeerConfig{RemoteAddress: netip.MustParseAddr(peerIP), LocalAS: lAS, RemoteAS: rAS}, pl, opts...)
	w.serve()
	var c net.Conn
	if dir == "in" {
		c, err = dialFrom(peerIP, fmt.Sprintf("127.0.0.1:%d", w.port()))
	} else {
		rl.(*net.TCPListener).SetDeadline(time.Now().Add(5 * time.Second))
		c, err = rl.Accept()
	}
	if err != nil {
		w.inconclusive("no connection: %v", err)
		w.close()
		return w.result("", false, nil)
	}
	rc := newRconn(c)
	ok := rc.waitMsgs(1, 5*time.Second)
	n := 1
	if ok && state != "OpenSent" {
		rc.open(0x0a000101, 90)
		ok = rc.waitMsgs(2, 5*time.Second)
		n = 2
	}
	if ok && state == "Established" {
		rc.send(wire.Keepalive())
		ok = pl.wait(5*time.Second, func() bool { return pl.est == 1 })
	}
	if !ok {
		w.inconclusive("could not reach %s", state)
		w.close()
		return w.result("", false, nil)
	}
	sub := map[string]uint8{"OpenSent": 1, "OpenConfirm": 2, "Established": 3}[state]
	var want *wire.Notif
	silent := false
	switch stim {
	case "OPEN":
		rc.open(0x0a000101, 90)
		want = &wire.Notif{Code: 5, Sub: sub, Data: []byte{1}}
	case "UPDATE":
		rc.send(wire.Update([]byte{0, 0, 0, 0}))
		want = &wire.Notif{Code: 5, Sub: sub, Data: []byte{2}}
	case "KEEPALIVE":
		rc.send(wire.Keepalive())
		want = &wire.Notif{Code: 5, Sub: sub, Data: []byte{4}}
	case "NOTIFICATION":
		rc.send(wire.Notification(6, 1, []byte{7}))
		silent = true
	case "FIN":
		rc.c.(*net.TCPConn).CloseWrite()
		silent = true
	case "badmarker":
		rc.send(wire.RawHeader(make([]byte, 16), 19, 4))
		want = &wire.Notif{Code: 1, Sub: 1}
	case "badlen":
		rc.send(wire.RawHeader(nil, 4097, 2))
		want = &wire.Notif{Code: 1, Sub: 2}
	case "badtype":
		rc.send(wire.RawHeader(nil, 19, 77))
		want = &wire.Notif{Code: 1, Sub: 3, Data: []byte{77}}
	}
	legal := (state == "OpenSent" && stim == "OPEN") || (state == "OpenConfirm" && stim == "KEEPALIVE") || (state == "Established" && (stim == "KEEPALIVE" || stim == "UPDATE"))
	cell := fmt.Sprintf("[%s/%s/%s on real TCP]", dir, state, stim)
	if legal {
		time.Sleep(300 * time.Millisecond)
		ms, eof, _ := rc.snapshot()
		if eof || len(ms) > n+1 {
			for _, m := range ms[n:] {
				if m.Type == wire.TypeNotification {
					w.violate("%s NOTIFICATION %v for a message that is legal progress", cell, m.Notif)
				}
			}
		}
	} else {
		if !rc.waitEOF(5 * time.Second) {
			w.inconclusive("%s connection not closed within 5 s", cell)
		} else {
			ms, _, perr := rc.snapshot()
			got := ms[n:]
			if perr != nil {
				w.violate("%s malformed bytes from corebgp: %v", cell, perr)
			}
			if silent {
				if len(got) != 0 {
					w.violate("%s corebgp sent %s; the connection must end silently", cell, types(got))
				}
			} else if len(got) != 1 || got[0].Type != wire.TypeNotification || got[0].Notif.String() != want.String() {
				w.violate("%s expected NOTIFICATION%v then close, got [%s]", cell, want, types(got))
			}
		}
		if state == "Established" && !pl.wait(2*time.Second, func() bool { return pl.closed == 1 }) {
			w.violate("%s OnClose not delivered", cell)
		}
	}
	w.close()
	return w.result("reaction-"+dir+state+stim, true, map[string]int{"real_cells": 1})
}

// admission on real loopback incl. wildcard / dual-stack listeners (C13).
func admissionCase(listen, src, local string, configured bool, k int) rt.Result {
	w, err := newWorld(listen)
	if err != nil {
		return rt.Result{Verdict: "inconclusive", Why: "listen " + listen + ": " + err.Error()}
	}
	pl := newPlug()
	peer := src
	if !configured {
		peer = "127.0.9.9"
		if strings.Contains(src, ":") {
			peer = "fd00::99"
		}
	}
	opts := []corebgp.PeerOption{corebgp.WithPassive()}
	if local != "" {
		opts = append(opts, corebgp.WithLocalAddress(netip.MustParseAddr(local)))
	}
	if err := w.srv.AddPeer(corebgp.PeerConfig{RemoteAddress: netip.MustParseAddr(peer), LocalAS: lAS, RemoteAS: rAS}, pl, opts...); err != nil {
		return rt.Result{Verdict: "inconclusive", Why: "AddPeer: " + err.Error()}
	}
	w.serve()
	dst := "127.0.0.1"
	if strings.Contains(src, ":") {
		dst = "::1"
	}
	c, err := dialFrom(src, net.JoinHostPort(dst, fmt.Sprint(w.port())))
	if err != nil {
		w.inconclusive("dial %s -> %s: %v", src, dst, err)
		w.close()
		return w.result("", false, nil)
	}
	rc := newRconn(c)
	want := configured && (local == "" || local == dst)
	desc := fmt.Sprintf("[real listener %s, %s -> %s, peer %s local %q]", listen, src, dst, peer, local)
	if want {
		if !rc.waitMsgs(1, 5*time.Second) {
			_, eof, _ := rc.snapshot()
			if eof {
				w.violate("%s connection from a configured peer to the configured address was refused", desc)
			} else {
				w.inconclusive("%s no OPEN within 5 s", desc)
			}
		}
	} else {
		if !rc.waitEOF(5 * time.Second) {
			ms, _, _ := rc.snapshot()
			if len(ms) > 0 {
				w.violate("%s must be refused but received %s", desc, types(ms))
			} else {
				w.inconclusive("%s not closed within 5 s", desc)
			}
		} else if ms, _, _ := rc.snapshot(); len(ms) > 0 || rc.p.Total > 0 {
			w.violate("%s refused connection received %d bytes", desc, rc.p.Total)
		}
	}
	rc.close()
	w.close()
	return w.result(fmt.Sprintf("adm-%s-%v-%v", listen, configured, local != ""), true, map[string]int{"real_admissions": 1})
}

// shutdown with file-descriptor accounting, incl. the dial-completes-during-Close window (C10).
func shutdownCase(k int, delay time.Duration) rt.Result {
	peerIP := fmt.Sprintf("127.0.4.%d", 10+k%200)
	base := socketFDs()
	for i := 0; i < 5; i++ { // let sockets of earlier scenarios finish closing
		time.Sleep(10 * time.Millisecond)
		if n := socketFDs(); n < base {
			base = n
		}
	}
	w, err := newWorld("127.0.0.1:0")
	if err != nil {
		return rt.Result{Verdict: "inconclusive", Why: err.Error()}
	}
	rl, err := net.Listen("tcp", peerIP+":0")
	if err != nil {
		return rt.Result{Verdict: "inconclusive", Why: err.Error()}
	}
	pl := newPlug()
	w.srv.AddPeer(corebgp.PeerConfig{RemoteAddress: netip.MustParseAddr(peerIP), LocalAS: lAS, RemoteAS: rAS}, pl,
		corebgp.WithPort(rl.Addr().(*net.TCPAddr).Port), corebgp.WithIdleHoldTime(20*time.Millisecond))
	var accepted []net.Conn
	var amu sync.Mutex
	acceptDone := make(chan struct{})
	go func() {
		defer close(acceptDone)
		for {
			c, err := rl.Accept()
			if err != nil {
				return
			}
			amu.Lock()
			accepted = append(accepted, c)
			amu.Unlock()
		}
	}()
	w.serve()
	time.Sleep(delay)
	w.close()
	time.Sleep(50 * time.Millisecond) // connections completed by the kernel are accepted
	rl.Close()
	<-acceptDone
	amu.Lock()
	for _, c := range accepted {
		// corebgp must have closed its end: a read returns EOF/RST promptly
		c.SetReadDeadline(time.Now().Add(2 * time.Second))
		buf := make([]byte, 4096)
		for {
			_, err := c.Read(buf)
			if err == nil {
				continue
			}
			var ne net.Error
			if errors.As(err, &ne) && ne.Timeout() {
				w.violate("a connection dialled by corebgp is still open 2 s after Server.Close returned (stop issued %v after Serve)", delay)
			} else if !errors.Is(err, io.EOF) && !errors.Is(err, syscall.ECONNRESET) {
				w.inconclusive("read: %v", err)
			}
			break
		}
		c.Close()
	}
	n := len(accepted)
	amu.Unlock()
	// a leaked socket stays open; anything still being torn down disappears
	now := socketFDs()
	for i := 0; i < 10 && now > base; i++ {
		time.Sleep(100 * time.Millisecond)
		now = socketFDs()
	}
	if base >= 0 && now > base {
		w.violate("%d socket file descriptors remain open 1 s after Server.Close (were %d before the scenario, stop issued %v after Serve)", now, base, delay)
	}
	return w.result("shutdown", n > 0, map[string]int{"real_shutdowns": 1, "connections_accepted": n})
}

// hold timer lower bound and real dial pacing (C06, C11): sound on a loaded
// machine because send <= receive and observe >= act.
func holdCase(k int) rt.Result {
	peerIP := fmt.Sprintf("127.0.5.%d", 10+k%200)
	w, err := newWorld("127.0.0.1:0")
	if err != nil {
		return rt.Result{Verdict: "inconclusive", Why: err.Error()}
	}
	pl := newPlug()
	w.srv.AddPeer(corebgp.PeerConfig{RemoteAddress: netip.MustParseAddr(peerIP), LocalAS: lAS, RemoteAS: rAS}, pl, corebgp.WithPassive(), corebgp.WithHoldTime(3))
	w.serve()
	c, err := dialFrom(peerIP, fmt.Sprintf("127.0.0.1:%d", w.port()))
	if err != nil {
		w.inconclusive("dial: %v", err)
		w.close()
		return w.result("", false, nil)
	}
	rc := newRconn(c)
	if !rc.handshake(0x0a000101, 30) {
		w.inconclusive("handshake")
		w.close()
		return w.result("", false, nil)
	}
	lastSend := time.Now()
	if !rc.waitEOF(10 * time.Second) {
		w.inconclusive("no hold timer expiry within 10 s (upper bounds are judged by the virtual engine only)")
	} else {
		ms, _, _ := rc.snapshot()
		var nAt time.Time
		for i, m := range ms {
			if m.Type == wire.TypeNotification && m.Notif.Code == 4 {
				nAt = rc.at[i]
			}
		}
		if nAt.IsZero() {
			w.violate("silent remote on real TCP: closed without Hold Timer Expired: %s", types(ms))
		} else if d := nAt.Sub(lastSend); d < 3*time.Second-20*time.Millisecond {
			w.violate("hold timer expired %v after the remote's last message; negotiated hold time is min(3,30)=3 s", d)
		}
		nka := 0
		for _, m := range ms {
			if m.Type == wire.TypeKeepalive {
				nka++
			}
		}
		if nka < 3 {
			w.inconclusive("only %d KEEPALIVEs seen in a 3 s session", nka)
		}
	}
	w.close()
	return w.result("hold", true, map[string]int{"real_hold_expiries": 1})
}

func paceCase(k int) rt.Result {
	w, err := newWorld("")
	if err != nil {
		return rt.Result{Verdict: "inconclusive", Why: err.Error()}
	}
	var mu sync.Mutex
	var at []time.Time
	pl := newPlug()
	w.srv.AddPeer(corebgp.PeerConfig{RemoteAddress: netip.MustParseAddr("127.0.6.1"), LocalAS: lAS, RemoteAS: rAS}, pl,
		corebgp.WithPort(1), corebgp.WithIdleHoldTime(200*time.Millisecond),
		corebgp.WithDialerControl(func(string, string, syscall.RawConn) error {
			mu.Lock()
			at = append(at, time.Now())
			mu.Unlock()
			return nil
		}))
	w.serve()
	time.Sleep(2100 * time.Millisecond)
	w.close()
	mu.Lock()
	defer mu.Unlock()
	for i := 1; i < len(at); i++ {
		// the timestamp is taken in the dial goroutine, which a loaded machine may schedule
		// late; only a gap far below the idle-hold time is evidence (exact pacing is judged in
		// virtual time)
		if g := at[i].Sub(at[i-1]); g < 100*time.Millisecond {
			w.violate("refused real dials %d and %d only %v apart; idle-hold time is 200 ms", i-1, i, g)
		}
	}
	if len(at) < 4 {
		w.inconclusive("only %d dial attempts in 2.1 s", len(at))
	}
	return w.result("pace", len(at) > 2, map[string]int{"real_dials": len(at)})
}

// readdCase: DeletePeer is still tearing down a session (the update handler is
// busy) while another goroutine re-adds the same address and the remote
// reconnects: at no instant may two sessions for the peer be Established (C01).
func readdCase(k int) rt.Result {
	peerIP := fmt.Sprintf("127.0.8.%d", 10+k%200)
	w, err := newWorld("127.0.0.1:0")
	if err != nil {
		return rt.Result{Verdict: "inconclusive", Why: err.Error()}
	}
	gate := make(chan struct{})
	var mu sync.Mutex
	up, maxUp, est, closed := 0, 0, 0, 0
	entered := make(chan struct{}, 4)
	pl := &fnPlugin{
		onEst: func() {
			mu.Lock()
			up++
			est++
			if up > maxUp {
				maxUp = up
			}
			mu.Unlock()
		},
		onUpdate: func() {
			select {
			case entered <- struct{}{}:
			default:
			}
			<-gate // the handler is busy until released
		},
		onClose: func() { mu.Lock(); up--; closed++; mu.Unlock() },
	}
	cfg := corebgp.PeerConfig{RemoteAddress: netip.MustParseAddr(peerIP), LocalAS: lAS, RemoteAS: rAS}
	if err := w.srv.AddPeer(cfg, pl, corebgp.WithPassive()); err != nil {
		return rt.Result{Verdict: "inconclusive", Why: err.Error()}
	}
	w.serve()
	dst := fmt.Sprintf("127.0.0.1:%d", w.port())
	c1, err := dialFrom(peerIP, dst)
	if err != nil {
		w.inconclusive("dial: %v", err)
		close(gate)
		w.close()
		return w.result("", false, nil)
	}
	r1 := newRconn(c1)
	if !r1.handshake(0x0a000101, 90) {
		w.inconclusive("first handshake")
		close(gate)
		w.close()
		return w.result("", false, nil)
	}
	r1.send(wire.Update([]byte{0, 0, 0, 0}))
	select {
	case <-entered:
	case <-time.After(5 * time.Second):
		w.inconclusive("handler not entered")
		close(gate)
		w.close()
		return w.result("", false, nil)
	}
	delDone, addDone := make(chan error, 1), make(chan error, 1)
	go func() { delDone <- w.srv.DeletePeer(cfg.RemoteAddress) }()
	time.Sleep(50 * time.Millisecond)
	go func() { addDone <- w.srv.AddPeer(cfg, pl, corebgp.WithPassive()) }()
	time.Sleep(50 * time.Millisecond)
	// the remote reconnects while the old session is still being torn down
	var r2 *rconn
	if c2, err := dialFrom(peerIP, dst); err == nil {
		r2 = newRconn(c2)
		if r2.waitMsgs(1, 700*time.Millisecond) {
			r2.open(0x0a000101, 90)
			if r2.waitMsgs(2, 700*time.Millisecond) {
				r2.send(wire.Keepalive())
				time.Sleep(300 * time.Millisecond)
			}
		}
	}
	mu.Lock()
	m, e, cl := maxUp, est, closed
	mu.Unlock()
	if m > 1 {
		w.violate("two sessions for peer %s Established at once: OnEstablished=%d OnClose=%d while DeletePeer was still tearing down the first session and AddPeer re-added the address", peerIP, e, cl)
	}
	close(gate)
	select {
	case <-delDone:
	case <-time.After(10 * time.Second):
		w.violate("DeletePeer did not return within 10 s after the handler was released")
	}
	select {
	case <-addDone:
	case <-time.After(10 * time.Second):
		w.violate("AddPeer did not return")
	}
	if r2 != nil {
		r2.close()
	}
	w.close()
	mu.Lock()
	if up != 0 {
		w.violate("after Close %d session(s) still up according to the plugin (OnEstablished=%d OnClose=%d)", up, est, closed)
	}
	mu.Unlock()
	return w.result("readd", true, map[string]int{"real_readd": 1})
}

// closeCloseCase: a second Close (or a DeletePeer) issued while a first Close is
// still tearing sessions down (OnClose is busy) must not return before the
// teardown is complete (C10: "by the time they return ...").
func closeCloseCase(k int, second string) rt.Result {
	w, err := newWorld("127.0.0.1:0")
	if err != nil {
		return rt.Result{Verdict: "inconclusive", Why: err.Error()}
	}
	gate := make(chan struct{})
	var mu sync.Mutex
	est, closed := 0, 0
	pl := &fnPlugin{
		onEst:    func() { mu.Lock(); est++; mu.Unlock() },
		onUpdate: func() {},
		onClose: func() {
			<-gate // teardown is slow
			mu.Lock()
			closed++
			mu.Unlock()
		},
	}
	ips := []string{fmt.Sprintf("127.0.12.%d", 10+k%100), fmt.Sprintf("127.0.13.%d", 10+k%100)}
	var rcs []*rconn
	for _, ip := range ips {
		w.srv.AddPeer(corebgp.PeerConfig{RemoteAddress: netip.MustParseAddr(ip), LocalAS: lAS, RemoteAS: rAS}, pl, corebgp.WithPassive())
	}
	w.serve()
	for _, ip := range ips {
		c, err := dialFrom(ip, fmt.Sprintf("127.0.0.1:%d", w.port()))
		if err != nil {
			w.inconclusive("dial: %v", err)
			close(gate)
			w.close()
			return w.result("", false, nil)
		}
		rc := newRconn(c)
		rcs = append(rcs, rc)
		if !rc.handshake(0x0a000101, 90) {
			w.inconclusive("handshake")
			close(gate)
			w.close()
			return w.result("", false, nil)
		}
	}
	deadline := time.Now().Add(5 * time.Second)
	for {
		mu.Lock()
		e := est
		mu.Unlock()
		if e == 2 || time.Now().After(deadline) {
			break
		}
		time.Sleep(5 * time.Millisecond)
	}
	firstDone, secondDone := make(chan struct{}), make(chan struct{})
	go func() { w.srv.Close(); close(firstDone) }()
	time.Sleep(100 * time.Millisecond) // the first Close is now waiting for a busy OnClose
	go func() {
		if second == "Close" {
			w.srv.Close()
		} else {
			w.srv.DeletePeer(netip.MustParseAddr(ips[1]))
		}
		close(secondDone)
	}()
	select {
	case <-secondDone:
		mu.Lock()
		c := closed
		mu.Unlock()
		open := 0
		for _, rc := range rcs {
			if _, eof, _ := rc.snapshot(); !eof {
				open++
			}
		}
		if c < 2 {
			w.violate("a %s issued while an earlier Close was still tearing down returned although only %d of 2 OnClose callbacks had been delivered and %d connection(s) were still open", second, c, open)
		}
	case <-time.After(400 * time.Millisecond):
		// still blocked, as it must be while OnClose is busy
	}
	close(gate)
	for _, ch := range []chan struct{}{firstDone, secondDone} {
		select {
		case <-ch:
		case <-time.After(10 * time.Second):
			w.violate("Close/DeletePeer did not return within 10 s after OnClose was released")
		}
	}
	select {
	case <-w.serveErr:
	case <-time.After(5 * time.Second):
		w.violate("Serve did not return")
	}
	w.lis.Close()
	return w.result("closeclose-"+second, true, map[string]int{"real_overlapping_stops": 1})
}

type fnPlugin struct {
	onEst, onUpdate, onClose func()
}

func (f *fnPlugin) GetCapabilities(corebgp.PeerConfig) []corebgp.Capability { return nil }
func (f *fnPlugin) OnOpenMessage(corebgp.PeerConfig, netip.Addr, []corebgp.Capability) *corebgp.Notification {
	return nil
}
func (f *fnPlugin) OnEstablished(corebgp.PeerConfig, corebgp.UpdateMessageWriter) corebgp.UpdateMessageHandler {
	f.onEst()
	return func(corebgp.PeerConfig, []byte) *corebgp.Notification { f.onUpdate(); return nil }
}
func (f *fnPlugin) OnClose(corebgp.PeerConfig) { f.onClose() }

// slowHandlerCase (C06, C03): the update handler is busy for longer than the hold
// time while the remote keeps sending KEEPALIVEs well inside it. The hold timer
// fires while the FSM is away; the messages received meanwhile must still count
// (no Hold Timer Expired, later UPDATEs delivered). Needs the timer-channel
// semantics the process runs with: this is the scenario in which the pre-Go-1.23
// ones (GODEBUG=asynctimerchan=1, what a go.mod below 1.23 gives) differ.
func slowHandlerCase(k int) rt.Result {
	peerIP := fmt.Sprintf("127.0.11.%d", 10+k%200)
	w, err := newWorld("127.0.0.1:0")
	if err != nil {
		return rt.Result{Verdict: "inconclusive", Why: err.Error()}
	}
	var mu sync.Mutex
	nUpd, closed := 0, 0
	busy := 3300 * time.Millisecond
	pl := &fnPlugin{onEst: func() {}, onClose: func() { mu.Lock(); closed++; mu.Unlock() }, onUpdate: func() {
		mu.Lock()
		nUpd++
		first := nUpd == 1
		mu.Unlock()
		if first {
			time.Sleep(busy)
		}
	}}
	w.srv.AddPeer(corebgp.PeerConfig{RemoteAddress: netip.MustParseAddr(peerIP), LocalAS: lAS, RemoteAS: rAS}, pl, corebgp.WithPassive(), corebgp.WithHoldTime(3))
	w.serve()
	c, err := dialFrom(peerIP, fmt.Sprintf("127.0.0.1:%d", w.port()))
	if err != nil {
		w.inconclusive("dial: %v", err)
		w.close()
		return w.result("", false, nil)
	}
	rc := newRconn(c)
	if !rc.handshake(0x0a000101, 30) {
		w.inconclusive("handshake")
		w.close()
		return w.result("", false, nil)
	}
	// scheduling-gap monitor: a verdict needs a machine that was not stalled
	stop := make(chan struct{})
	var maxGap time.Duration
	var gwg sync.WaitGroup
	gwg.Add(1)
	go func() {
		defer gwg.Done()
		last := time.Now()
		for {
			select {
			case <-stop:
				return
			case <-time.After(20 * time.Millisecond):
			}
			now := time.Now()
			if g := now.Sub(last); g > maxGap {
				maxGap = g
			}
			last = now
		}
	}()
	var sends []time.Time
	rc.send(wire.Update([]byte{0, 0, 0, 0}))
	sends = append(sends, time.Now())
	t0 := time.Now()
	for time.Since(t0) < 5500*time.Millisecond {
		time.Sleep(600 * time.Millisecond)
		rc.send(wire.Keepalive())
		sends = append(sends, time.Now())
	}
	rc.send(wire.Update([]byte{0, 0, 0, 0}))
	time.Sleep(300 * time.Millisecond)
	close(stop)
	gwg.Wait()
	ms, eof, _ := rc.snapshot()
	rc.mu.Lock()
	ats := append([]time.Time(nil), rc.at...)
	rc.mu.Unlock()
	var nAt time.Time
	for i, m := range ms {
		if m.Type == wire.TypeNotification && m.Notif.Code == 4 && i < len(ats) {
			nAt = ats[i]
		}
	}
	mu.Lock()
	got := nUpd
	mu.Unlock()
	switch {
	case !nAt.IsZero():
		var last time.Time
		for _, s := range sends {
			if s.Before(nAt.Add(-50 * time.Millisecond)) {
				last = s
			}
		}
		if d := nAt.Sub(last); maxGap < 300*time.Millisecond && d < 2*time.Second {
			w.violate("Hold Timer Expired sent %v after a KEEPALIVE from the remote (hold time 3 s, a KEEPALIVE every 600 ms) once the update handler had been busy for %v; %d of 2 UPDATEs delivered", d, busy, got)
		} else {
			w.inconclusive("hold timer expired but the machine was stalled (largest scheduling gap %v, %v after the last send)", maxGap, d)
		}
	case eof:
		w.inconclusive("connection ended without Hold Timer Expired: %s", types(ms))
	case got != 2:
		w.inconclusive("%d of 2 UPDATEs delivered within 300 ms", got)
	}
	w.close()
	return w.result("slow-handler", true, map[string]int{"real_slow_handler_sessions": 1, "keepalives_sent_while_busy": len(sends) - 1})
}

// backpressureCase: the remote stops reading while writer goroutines and the
// keepalive timer (hold 3 s) keep writing into a 4 KiB send buffer, then
// resumes; every byte must still parse as whole messages and every
// nil-returning WriteUpdate must appear exactly once (C04 on a real kernel).
func backpressureCase(k int) rt.Result {
	peerIP := fmt.Sprintf("127.0.10.%d", 10+k%200)
	w, err := newWorld("")
	if err != nil {
		return rt.Result{Verdict: "inconclusive", Why: err.Error()}
	}
	lc := net.ListenConfig{Control: func(_, _ string, c syscall.RawConn) error {
		return c.Control(func(fd uintptr) { syscall.SetsockoptInt(int(fd), syscall.SOL_SOCKET, syscall.SO_RCVBUF, 4096) })
	}}
	rl, err := lc.Listen(nil, "tcp", peerIP+":0")
	if err != nil {
		return rt.Result{Verdict: "inconclusive", Why: err.Error()}
	}
	defer rl.Close()
	// in variant 2 corebgp's own KEEPALIVE timer (a third of the hold time) stays out of the way, so that
	// the FSM is not itself blocked in a write when Close arrives
	variant := k % 3
	hold := []uint16{3, 3, 30}[variant]
	pl := newPlug()
	w.srv.AddPeer(corebgp.PeerConfig{RemoteAddress: netip.MustParseAddr(peerIP), LocalAS: lAS, RemoteAS: rAS}, pl,
		corebgp.WithPort(rl.Addr().(*net.TCPAddr).Port), corebgp.WithHoldTime(hold), corebgp.WithIdleHoldTime(50*time.Millisecond),
		corebgp.WithDialerControl(func(_, _ string, c syscall.RawConn) error {
			return c.Control(func(fd uintptr) { syscall.SetsockoptInt(int(fd), syscall.SOL_SOCKET, syscall.SO_SNDBUF, 4096) })
		}))
	w.serve()
	rl.(*net.TCPListener).SetDeadline(time.Now().Add(5 * time.Second))
	c, err := rl.Accept()
	if err != nil {
		w.inconclusive("accept: %v", err)
		w.close()
		return w.result("", false, nil)
	}
	rc := newRconn(c)
	if !rc.handshake(0x0a000101, 30) || !pl.wait(5*time.Second, func() bool { return pl.est == 1 }) {
		w.inconclusive("handshake")
		w.close()
		return w.result("", false, nil)
	}
	// the remote must keep corebgp's hold timer (3 s) happy while it is not reading
	stopKA := make(chan struct{})
	go func() {
		for {
			select {
			case <-stopKA:
				return
			case <-time.After(500 * time.Millisecond):
				rc.send(wire.Keepalive())
			}
		}
	}()
	// variant 0: the remote stops reading for less than the hold time; 1: for longer than the hold time
	// (a write that is cut by a deadline would leave a fragment in the stream); 2: Server.Close arrives
	// while the writers are blocked (the message in flight must still be completed before the Cease)
	pauseFor := []time.Duration{2500 * time.Millisecond, 4500 * time.Millisecond, 4000 * time.Millisecond}[variant]
	rc.pause(true)
	type res struct {
		g, i int
		err  error
	}
	results := make(chan res, 4096)
	var wg sync.WaitGroup
	for g := 0; g < 4; g++ {
		wg.Add(1)
		go func(g int) {
			defer wg.Done()
			for i := 0; i < 40; i++ {
				b := make([]byte, 2000+(g*40+i)%1500)
				b[0], b[1], b[2] = 0xC4, byte(g), byte(i)
				results <- res{g, i, pl.writer.WriteUpdate(b)}
			}
		}(g)
	}
	closed := make(chan struct{})
	if variant == 2 {
		time.Sleep(1500 * time.Millisecond)
		close(stopKA)
		go func() { w.close(); close(closed) }()
		time.Sleep(pauseFor - 1500*time.Millisecond)
	} else {
		time.Sleep(pauseFor) // writers block; at least two keepalive ticks queue behind them
	}
	rc.pause(false)
	done := make(chan struct{})
	go func() { wg.Wait(); close(done) }()
	select {
	case <-done:
	case <-time.After(20 * time.Second):
		w.inconclusive("writers did not finish within 20 s after the remote resumed reading")
	}
	if variant == 2 {
		select {
		case <-closed:
		case <-time.After(20 * time.Second):
			w.inconclusive("Server.Close did not return within 20 s after the remote resumed reading")
		}
	} else {
		close(stopKA)
		time.Sleep(300 * time.Millisecond)
		w.close()
	}
	rc.waitEOF(5 * time.Second)
	close(results)
	ok := map[[2]byte]bool{}
	for r := range results {
		if r.err == nil {
			ok[[2]byte{byte(r.g), byte(r.i)}] = true
		}
	}
	ms, _, perr := rc.snapshot()
	rc.mu.Lock()
	pending, endedClean := rc.p.Pending(), rc.eof && errors.Is(rc.rderr, io.EOF)
	rc.mu.Unlock()
	sawNotif := false
	for _, m := range ms {
		sawNotif = sawNotif || m.Type == wire.TypeNotification
	}
	if perr != nil {
		w.violate("with the remote not reading for %v (hold time %d s, variant %d), the bytes corebgp wrote are not whole well-formed messages: %v", pauseFor, int(hold), variant, perr)
	} else if pending > 0 && endedClean && !sawNotif {
		// corebgp closes a connection the remote keeps open only after it has written a NOTIFICATION, and every
		// write before that one is completed; a stream that ends inside a message with no NOTIFICATION before it
		// means a message in flight was cut
		w.violate("with the remote not reading for %v (variant %d), corebgp closed the connection %d octets into a message and without a NOTIFICATION: the message in flight when the teardown began was cut", pauseFor, variant, pending)
	} else {
		seen := map[[2]byte]int{}
		for _, m := range ms {
			if m.Type == wire.TypeUpdate && len(m.Body) >= 3 && m.Body[0] == 0xC4 {
				seen[[2]byte{m.Body[1], m.Body[2]}]++
			}
		}
		rc.mu.Lock()
		cleanEOF := rc.eof && errors.Is(rc.rderr, io.EOF)
		rc.mu.Unlock()
		for k := range ok {
			if seen[k] > 1 || (seen[k] == 0 && cleanEOF) {
				w.violate("WriteUpdate (writer %d seq %d) returned nil under back-pressure but appears %d times on the wire", k[0], k[1], seen[k])
				break
			}
			if seen[k] == 0 && variant == 0 {
				w.inconclusive("the connection ended with %v, data in flight may have been lost", rc.rderr)
				break
			}
		}
	}
	return w.result(fmt.Sprintf("backpressure/%d/notif=%v/cleaneof=%v", variant, sawNotif, endedClean), len(ok) > 0, map[string]int{"real_backpressure": 1, fmt.Sprintf("real_backpressure_variant_%d", variant): 1, "writes_ok": len(ok)})
}

// ---------------------------------------------------------------- entry points

func TestRealReadd(t *testing.T) {
	c := rt.Get()
	for i := 0; i < c.N(3, 40); i++ {
		runCase(t, "real-readd", i, map[string]any{"scenario": "DeletePeer busy + AddPeer + reconnect"}, func() rt.Result { return readdCase(i) })
	}
}

func TestRealBackpressure(t *testing.T) {
	c := rt.Get()
	for i := 0; i < c.N(6, 24); i++ {
		runCase(t, "real-backpressure", i, map[string]any{"sndbuf": 4096, "variant": i % 3, "pause": []string{"2.5s", "4.5s", "4s with Server.Close after 1.5s"}[i%3], "hold": []int{3, 3, 30}[i%3]}, func() rt.Result { return backpressureCase(i) })
	}
}

func TestRealSessions(t *testing.T) {
	c := rt.Get()
	n := c.N(6, 60)
	for i := 0; i < n; i++ {
		dir := []string{"in", "out"}[i%2]
		runCase(t, "real-session", i, map[string]any{"dir": dir, "transport": "loopback TCP"}, func() rt.Result { return sessionCase(dir, i) })
	}
	for i := 0; i < c.N(2, 8); i++ {
		dir := []string{"out", "in"}[i%2]
		runCase(t, "real-session6", i, map[string]any{"dir": dir, "transport": "loopback TCP, ::1 <-> ::1, local address configured"}, func() rt.Result { return sessionCaseAF(dir, i, true) })
	}
}

// TestRealReconnect (C11): the real dial path (source address binding for both
// address families, the kernel's refusals) that the virtual engine replaces.
func TestRealReconnect(t *testing.T) {
	c := rt.Get()
	for i := 0; i < c.N(1, 5); i++ {
		runCase(t, "real-dial", 3*i, map[string]any{"family": "IPv4", "local_address": true}, func() rt.Result { return sessionCaseAF("out", 1+3*i, false) })
		runCase(t, "real-dial", 3*i+1, map[string]any{"family": "IPv6", "local_address": true}, func() rt.Result { return sessionCaseAF("out", i, true) })
		runCase(t, "real-dial", 3*i+2, map[string]any{"family": "IPv4", "local_address": false}, func() rt.Result { return sessionCaseAF("out", 3*i, false) })
		runCase(t, "real-pace", i, map[string]any{"idle_hold": "200ms"}, func() rt.Result { return paceCase(i) })
	}
}

func TestRealSlowHandler(t *testing.T) {
	c := rt.Get()
	for i := 0; i < c.N(1, 4); i++ {
		runCase(t, "real-slow-handler", i, map[string]any{"hold": 3, "handler_busy": "3.3s", "remote": "KEEPALIVE every 600 ms"}, func() rt.Result {
			// a run during which the machine stalled says nothing: try again, three times at most
			res := slowHandlerCase(i)
			for try := 1; try < 3 && res.Verdict == "inconclusive"; try++ {
				res = slowHandlerCase(i + 50*try)
			}
			return res
		})
	}
}

func TestRealCollision(t *testing.T) {
	c := rt.Get()
	n := c.N(4, 80)
	for i := 0; i < n; i++ {
		dom, first := i%2 == 0, []string{"out", "in"}[(i/2)%2]
		runCase(t, "real-collision", i, map[string]any{"local_dominant": dom, "first_open_on": first}, func() rt.Result { return collisionCase(dom, first, i) })
	}
}

func TestRealReactions(t *testing.T) {
	c := rt.Get()
	states := []string{"OpenSent", "OpenConfirm", "Established"}
	stims := []string{"OPEN", "UPDATE", "KEEPALIVE", "NOTIFICATION", "FIN"}
	idx := 0
	reps := c.N(1, 10)
	for rep := 0; rep < reps; rep++ {
		for _, dir := range []string{"in", "out"} {
			for _, st := range states {
				for _, stim := range stims {
					i := idx
					runCase(t, "real-reaction", i, map[string]any{"dir": dir, "state": st, "stimulus": stim}, func() rt.Result { return reactionCase(dir, st, stim, i) })
					idx++
				}
			}
		}
	}
}

func TestRealHeaders(t *testing.T) {
	c := rt.Get()
	idx := 0
	for rep := 0; rep < c.N(1, 10); rep++ {
		for _, st := range []string{"OpenSent", "OpenConfirm", "Established"} {
			for _, stim := range []string{"badmarker", "badlen", "badtype"} {
				i := idx
				dir := []string{"in", "out"}[idx%2]
				runCase(t, "real-header", i, map[string]any{"dir": dir, "state": st, "fault": stim}, func() rt.Result { return reactionCase(dir, st, stim, i) })
				idx++
			}
		}
	}
}

func TestRealAdmission(t *testing.T) {
	idx := 0
	for _, lis := range []string{"127.0.0.1:0", "0.0.0.0:0", "[::1]:0", "[::]:0"} {
		for _, src := range []string{"127.0.7.2", "127.0.7.3", "::1"} {
			v6src, v6lis := strings.Contains(src, ":"), lis == "[::1]:0"
			if v6src != v6lis && lis != "[::]:0" {
				continue // not reachable
			}
			dst := "127.0.0.1"
			if v6src {
				dst = "::1"
			}
			for _, local := range []string{"", dst, map[bool]string{true: "fd00::2", false: "127.0.0.9"}[v6src]} {
				for _, configured := range []bool{true, false} {
					i := idx
					runCase(t, "real-admission", i, map[string]any{"listener": lis, "src": src, "local": local, "configured": configured}, func() rt.Result { return admissionCase(lis, src, local, configured, i) })
					idx++
				}
			}
		}
	}
}

func TestRealShutdown(t *testing.T) {
	c := rt.Get()
	for i := 0; i < c.N(4, 40); i++ {
		second := []string{"Close", "DeletePeer"}[i%2]
		runCase(t, "real-overlapping-stops", i, map[string]any{"second_call": second}, func() rt.Result { return closeCloseCase(i, second) })
	}
	n := c.N(40, 600)
	for i := 0; i < n; i++ {
		d := time.Duration(i%40) * 500 * time.Microsecond
		runCase(t, "real-shutdown", i, map[string]any{"close_after": d.String()}, func() rt.Result { return shutdownCase(i, d) })
	}
}

func TestRealTimers(t *testing.T) {
	c := rt.Get()
	for i := 0; i < c.N(1, 6); i++ {
		runCase(t, "real-hold", i, map[string]any{"local_hold": 3, "remote_hold": 30}, func() rt.Result { return holdCase(i) })
		runCase(t, "real-pace", i, map[string]any{"idle_hold": "200ms"}, func() rt.Result { return paceCase(i) })
	}
}
